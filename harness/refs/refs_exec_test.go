package datas_test

// Execution side shared by C20 and C21: K datas.Database clients over shared or separate
// chunk-store handles, a ChunkStore wrapper that lets the harness run other clients' calls
// right before a store-root swap, and the comparison of every outcome and every read-back
// with the model in refs_model_test.go.

import (
	"context"
	"errors"
	"fmt"
	"os"
	"sort"
	"strings"
	"testing"
	"time"

	"github.com/dolthub/dolt/go/gen/fb/serial"
	"github.com/dolthub/dolt/go/store/chunks"
	"github.com/dolthub/dolt/go/store/datas"
	"github.com/dolthub/dolt/go/store/hash"
	"github.com/dolthub/dolt/go/store/nbs"
	"github.com/dolthub/dolt/go/store/prolly/tree"
	"github.com/dolthub/dolt/go/store/types"
	"github.com/dolthub/dolt/go/zzverif/vh"
)

// verifRHookCS forwards everything to the wrapped store; onCommit (if set) runs right before
// the root compare-and-swap is handed to the store, i.e. between database.update's read of the
// root and its swap.
type verifRHookCS struct {
	chunks.ChunkStore
	onCommit func()
	// novel, if set, writes one fresh value through this handle before every swap (see the
	// per-handle NBS mode in verifROpen)
	novel func()
}

func (h *verifRHookCS) Commit(ctx context.Context, current, last hash.Hash) (bool, error) {
	if f := h.novel; f != nil {
		f()
	}
	if f := h.onCommit; f != nil {
		f()
	}
	return h.ChunkStore.Commit(ctx, current, last)
}

type verifRClient struct {
	idx   int
	cs    *verifRHookCS
	vs    *types.ValueStore
	db    datas.Database
	snaps map[string]datas.Dataset
}

const (
	verifRModeMemShared  = "mem-shared"  // one memory view, K databases on it
	verifRModeMemViews   = "mem-views"   // K views of one memory storage (each caches its root)
	verifRModeNBSShared  = "nbs-shared"  // one NBS file-manifest store, K databases on it
	verifRModeNBSHandles = "nbs-handles" // K NBS handles opened on one file-manifest directory
	verifRModeJournal    = "journal"     // one journaling NBS store, K databases on it
)

func verifRSeparate(mode string) bool {
	return mode == verifRModeMemViews || mode == verifRModeNBSHandles
}

type verifRFailer interface {
	Fatalf(format string, args ...any)
}

type verifRHarness struct {
	ft        verifRFailer
	ctx       context.Context
	mode      string
	dir       string
	m         *verifRModel
	clients   []*verifRClient
	values    map[string]types.Value
	valueHash map[string]hash.Hash
	sym2hash  map[string]hash.Hash
	hash2sym  map[hash.Hash]string
	log       []string
	stores    []chunks.ChunkStore
	cleanup   []func()
	nextN     int
	readVia   int
	// afterEvent, if set, runs after every op (top level or injected) has returned and been
	// compared; C21 records the journal size there.
	afterEvent func(op *verifROp, exp *verifROutcome)
}

func (h *verifRHarness) fail(format string, args ...any) {
	msg := fmt.Sprintf(format, args...)
	h.ft.Fatalf("%s\nmode=%s clients=%d\nops so far:\n  %s\nmodel now: %s", msg, h.mode, len(h.clients), strings.Join(h.log, "\n  "), h.m.global)
}

func (h *verifRHarness) close() {
	for _, s := range h.stores {
		_ = s.Close()
	}
	h.stores = nil
	for _, f := range h.cleanup {
		f()
	}
	h.cleanup = nil
}

var verifRNBF = types.Format_DOLT

// verifROpen builds the clients of one case.
func verifROpen(t *testing.T, ft verifRFailer, mode string, k int, valueSyms []string) *verifRHarness {
	h := &verifRHarness{ft: ft, ctx: context.Background(), mode: mode, m: verifRNewModel(k, verifRSeparate(mode)),
		values: map[string]types.Value{}, valueHash: map[string]hash.Hash{}, sym2hash: map[string]hash.Hash{}, hash2sym: map[hash.Hash]string{}}
	ctx := h.ctx
	h.m.trivialNoop = mode == verifRModeNBSShared || mode == verifRModeJournal
	var bases []chunks.ChunkStore
	switch mode {
	case verifRModeMemShared:
		st := &chunks.MemoryStorage{}
		cs := st.NewViewWithDefaultFormat()
		for i := 0; i < k; i++ {
			bases = append(bases, cs)
		}
	case verifRModeMemViews:
		st := &chunks.MemoryStorage{}
		for i := 0; i < k; i++ {
			bases = append(bases, st.NewViewWithDefaultFormat())
		}
	case verifRModeNBSShared, verifRModeNBSHandles, verifRModeJournal:
		dir, rm := vh.ScratchDir(t, "refs")
		h.dir = dir
		h.cleanup = append(h.cleanup, rm)
		n := 1
		if mode == verifRModeNBSHandles {
			n = k
		}
		var opened []chunks.ChunkStore
		for i := 0; i < n; i++ {
			var st *nbs.NomsBlockStore
			var err error
			if mode == verifRModeJournal {
				st, err = nbs.NewLocalJournalingStore(ctx, verifRNBF.VersionString(), dir, nbs.NewUnlimitedMemQuotaProvider(), false, nil)
			} else {
				st, err = nbs.NewLocalStore(ctx, verifRNBF.VersionString(), dir, 1<<20, nbs.NewUnlimitedMemQuotaProvider(), false)
			}
			if err != nil {
				h.close()
				vh.Inconclusive(t, "cannot open %s store in %s: %v", mode, dir, err)
			}
			h.stores = append(h.stores, st)
			opened = append(opened, st)
		}
		for i := 0; i < k; i++ {
			bases = append(bases, opened[i%n])
		}
	default:
		panic("verif: unknown mode " + mode)
	}
	for i := 0; i < k; i++ {
		cs := &verifRHookCS{ChunkStore: bases[i]}
		vs := types.NewValueStore(cs)
		c := &verifRClient{idx: i, cs: cs, vs: vs, db: datas.NewTypesDatabase(vs, tree.NewNodeStore(cs)), snaps: map[string]datas.Dataset{}}
		h.clients = append(h.clients, c)
		if mode == verifRModeNBSHandles {
			// A NomsBlockStore decides "my manifest update landed" by comparing the manifest it
			// wanted with the one on disk. A handle with nothing new to persist whose intended
			// root is exactly what another handle just wrote (A->B->A on the whole map) therefore
			// reports success without having swapped: same final state, but whether it happens
			// depends on which chunks happen to sit in the handle's memtable. Every committing
			// client here writes one fresh value before a swap (a real committer has novel chunks
			// whenever its new root is new), which makes the swap succeed iff the handle's root is
			// still the store's root.
			n := 0
			cs.novel = func() {
				n++
				if _, err := vs.WriteValue(ctx, types.String(fmt.Sprintf("novel value of client %d #%d", i, n))); err != nil {
					h.fail("WriteValue: %v", err)
				}
			}
		}
	}
	for _, s := range valueSyms {
		v := types.String("value " + s)
		hv, err := v.Hash(verifRNBF)
		if err != nil {
			h.fail("hash of value: %v", err)
		}
		h.values[s], h.valueHash[s] = v, hv
		h.sym2hash[s], h.hash2sym[hv] = hv, s
		// every client writes the root values it may later name in a working set (doltdb writes
		// the roots before it writes the working set that refers to them)
		for _, c := range h.clients {
			if _, err := c.vs.WriteValue(ctx, v); err != nil {
				h.fail("WriteValue: %v", err)
			}
		}
	}
	return h
}

func (h *verifRHarness) hashOf(sym string) hash.Hash {
	if sym == "" {
		return hash.Hash{}
	}
	a, ok := h.sym2hash[sym]
	if !ok {
		h.fail("harness bug: symbol %s used before it was bound to an address", sym)
	}
	return a
}

func (h *verifRHarness) snapOf(c *verifRClient, id string) datas.Dataset {
	if ds, ok := c.snaps[id]; ok {
		return ds
	}
	return datas.NewHeadlessDataset(c.db, id)
}

func verifRErrClass(err error) string {
	switch {
	case err == nil:
		return ""
	case errors.Is(err, datas.ErrMergeNeeded):
		return "merge"
	case errors.Is(err, datas.ErrOptimisticLockFailed):
		return "lock"
	case errors.Is(err, datas.ErrAlreadyCommitted):
		return "already"
	case errors.Is(err, datas.ErrDirtyWorkspace):
		return "dirty"
	case strings.Contains(err.Error(), "already exists and cannot be altered"):
		return "exists"
	}
	return "other"
}

// commitMeta: the description is the tag and both dates are pinned to a function of the tag, so
// equal tags give byte-identical metadata.
func (h *verifRHarness) commitMeta(tag string) *datas.CommitMeta {
	var n int
	if len(tag) > 1 {
		fmt.Sscanf(tag[1:], "%d", &n)
	}
	base := int64(1700000000)
	if strings.HasPrefix(tag, "p") {
		base = 1600000000
	}
	id := datas.CommitIdent{Name: "verif", Email: "verif@example.com", Date: datas.CommitDateAt(time.Unix(base+int64(n), 0).UTC())}
	return &datas.CommitMeta{Author: id, Committer: id, Description: tag}
}

func (h *verifRHarness) wsSpec(op *verifROp) datas.WorkingSetSpec {
	wr, err := types.NewRef(h.values[op.Working], verifRNBF)
	if err != nil {
		h.fail("NewRef: %v", err)
	}
	sr, err := types.NewRef(h.values[op.Staged], verifRNBF)
	if err != nil {
		h.fail("NewRef: %v", err)
	}
	spec := datas.WorkingSetSpec{WorkingRoot: wr, StagedRoot: sr}
	if op.Meta != 0 {
		spec.Meta = &datas.WorkingSetMeta{Name: "verif", Email: "verif@example.com", Description: fmt.Sprintf("m%d", op.Meta), Timestamp: uint64(op.Meta)}
	}
	return spec
}

func (h *verifRHarness) refresh(c *verifRClient, id, wantSym string) {
	ds, err := c.db.GetDataset(h.ctx, id)
	if err != nil {
		h.fail("k%d GetDataset(%s): %v", c.idx, id, err)
	}
	c.snaps[id] = ds
	got, ok := ds.MaybeHeadAddr()
	if wantSym == "" {
		if ok {
			h.fail("k%d GetDataset(%s) has head %s (%s), the model has no such dataset in this client's view", c.idx, id, got, h.hash2sym[got])
		}
		return
	}
	if !ok {
		h.fail("k%d GetDataset(%s) has no head, the model has %s", c.idx, id, wantSym)
	}
	if want, bound := h.sym2hash[wantSym]; bound && want != got {
		h.fail("k%d GetDataset(%s) = %s (%s), the model has %s (%s)", c.idx, id, got, h.hash2sym[got], wantSym, want)
	}
}

// rereadAddr reads the current address of dataset id through the client without touching the
// dataset handle the client holds.
func (h *verifRHarness) rereadAddr(c *verifRClient, id, wantSym string) hash.Hash {
	ds, err := c.db.GetDataset(h.ctx, id)
	if err != nil {
		h.fail("k%d GetDataset(%s): %v", c.idx, id, err)
	}
	a, _ := ds.MaybeHeadAddr()
	if want, bound := h.sym2hash[wantSym]; (wantSym == "" && !a.IsEmpty()) || (bound && want != a) {
		h.fail("k%d re-read %s = %s (%s), the model has %q", c.idx, id, a, h.hash2sym[a], wantSym)
	}
	return a
}

// exec performs op for real and compares what happened with the prediction.
func (h *verifRHarness) exec(op *verifROp, exp *verifROutcome, top bool) {
	ctx := h.ctx
	c := h.clients[op.Client]
	defer func() {
		if h.afterEvent != nil {
			h.afterEvent(op, exp)
		}
	}()
	switch op.Kind {
	case verifRRefresh:
		h.refresh(c, op.ID, exp.SnapID)
		h.log = append(h.log, op.String()+" = "+exp.SnapID)
		return
	case verifRRebase:
		if err := c.vs.Rebase(ctx); err != nil {
			h.fail("k%d Rebase: %v", c.idx, err)
		}
		h.log = append(h.log, op.String())
		return
	}
	if op.Fresh {
		h.refresh(c, op.ID, exp.SnapID)
		if op.Kind == verifRCommitWS {
			h.refresh(c, op.WS, exp.SnapWS)
		}
	}
	ds := h.snapOf(c, op.ID)
	attempts := 0
	logAt := len(h.log)
	h.log = append(h.log, "")
	c.cs.onCommit = func() {
		i := attempts
		attempts++
		if i < len(op.Inter) && i < len(exp.Nested) {
			h.exec(op.Inter[i], exp.Nested[i], false)
			h.readbackAll(exp.Nested[i].Post, op.Client)
			h.checkDescends(op.Inter[i], exp.Nested[i])
		}
	}
	var err error
	switch op.Kind {
	case verifRCommit, verifRCommitWS:
		opts := datas.CommitOptions{Meta: h.commitMeta(op.MetaTag), AmendedCommit: h.hashOf(op.Amend), Force: op.Force}
		if op.Parents != nil {
			opts.Parents = []hash.Hash{}
			for _, p := range op.Parents {
				opts.Parents = append(opts.Parents, h.hashOf(p))
			}
		}
		if op.Kind == verifRCommit {
			_, err = c.db.Commit(ctx, ds, h.values[op.Value], opts)
		} else {
			wsds := h.snapOf(c, op.WS)
			var prev hash.Hash
			if op.PrevFresh && !op.PrevEmpty {
				prev = h.rereadAddr(c, op.WS, exp.PrevRead)
			} else if !op.PrevEmpty {
				prev, _ = wsds.MaybeHeadAddr()
			}
			_, _, err = c.db.CommitWithWorkingSet(ctx, ds, wsds, h.values[op.Value], h.wsSpec(op), prev, opts)
		}
	case verifRUpdateWS:
		var prev hash.Hash
		if op.PrevFresh && !op.PrevEmpty {
			prev = h.rereadAddr(c, op.ID, exp.PrevRead)
		} else if !op.PrevEmpty {
			prev, _ = ds.MaybeHeadAddr()
		}
		_, err = c.db.UpdateWorkingSet(ctx, ds, h.wsSpec(op), prev)
	case verifRFF:
		_, err = c.db.FastForward(ctx, ds, h.hashOf(op.Target), op.WS, op.AllowDirty)
	case verifRSetHead:
		_, err = c.db.SetHead(ctx, ds, h.hashOf(op.Target), op.WS)
	case verifRTag:
		_, n := verifRTagParts(op.NewSym)
		_, err = c.db.Tag(ctx, ds, h.hashOf(op.Target), datas.TagOptions{Meta: &datas.TagMeta{Name: "verif", Email: "verif@example.com",
			Description: op.NewSym, Timestamp: uint64(n), UserTimestamp: int64(n)}})
	case verifRDelete:
		_, err = c.db.Delete(ctx, ds, op.WS)
	default:
		panic("verif: exec of " + op.Kind)
	}
	c.cs.onCommit = nil
	res := "ok"
	if err != nil {
		res = "ERR " + verifRErrClass(err)
	}
	h.log[logAt] = fmt.Sprintf("%s snap=%s -> %s swaps=%d", op.String(), exp.SnapID, res, attempts)
	got := verifRErrClass(err)
	if exp.OK && err != nil {
		h.fail("%s (snapshot head %s): failed with %q; its precondition holds in the model, it must succeed", op, exp.SnapID, err)
	}
	if !exp.OK && err == nil {
		h.fail("%s (snapshot head %s): succeeded; the model rejects it with a %q error (precondition does not hold at the state it must check)", op, exp.SnapID, exp.Err)
	}
	if !exp.OK && exp.Err != "other" && got != exp.Err {
		h.fail("%s (snapshot head %s): failed with %q (class %s); the documented error class for this rejection is %s", op, exp.SnapID, err, got, exp.Err)
	}
	// VERIF_REFS_NO_SWAPCOUNT=1 switches the swap-count comparison off (sensitivity trials of the
	// other oracles only)
	if attempts != exp.Attempts && os.Getenv("VERIF_REFS_NO_SWAPCOUNT") == "" {
		h.fail("%s: %d store-root swaps attempted, the optimistic loop must make %d here (outcome %s)", op, attempts, exp.Attempts, res)
	}
	if top {
		h.readbackAll(exp.Post, -1)
		h.checkDescends(op, exp)
	}
}

// checkDescends: an accepted ordinary commit or fast-forward moved the branch to a descendant
// of its previous head. Walks the stored commits (not the model's graph).
func (h *verifRHarness) checkDescends(op *verifROp, exp *verifROutcome) {
	if exp.PrevHead == "" {
		return
	}
	c := h.clients[op.Client]
	old, now := h.hashOf(exp.PrevHead), h.hashOf(exp.NewHead)
	seen := map[hash.Hash]bool{}
	stack := []hash.Hash{now}
	for len(stack) > 0 {
		a := stack[len(stack)-1]
		stack = stack[:len(stack)-1]
		if a == old {
			return
		}
		if seen[a] {
			continue
		}
		seen[a] = true
		v, err := c.vs.ReadValue(h.ctx, a)
		if err != nil || v == nil {
			h.fail("%s: cannot read commit %s (%s) while walking the history of the new head: %v", op, a, h.hash2sym[a], err)
		}
		ps, err := datas.GetCommitParents(h.ctx, c.vs, v)
		if err != nil {
			h.fail("%s: parents of %s: %v", op, h.hash2sym[a], err)
		}
		for _, p := range ps {
			stack = append(stack, p.Addr())
		}
	}
	h.fail("%s moved %s from %s to %s, which does not descend from it (stored commit graph)", op, op.ID, exp.PrevHead, exp.NewHead)
}

// readbackAll reads the whole dataset map through every client (except skip, which is in the
// middle of a call) and requires it to equal that client's view in the model.
func (h *verifRHarness) readbackAll(post verifRPost, skip int) {
	for _, c := range h.clients {
		if c.idx == skip {
			continue
		}
		h.readback(c, post.viewOf(c.idx))
	}
}

func (h *verifRHarness) readMap(c *verifRClient) map[string]hash.Hash {
	var dm datas.DatasetsMap
	var err error
	h.readVia++
	if h.readVia%2 == 0 {
		dm, err = c.db.Datasets(h.ctx)
	} else {
		// one store root, then the map at exactly that root
		var root hash.Hash
		root, err = c.vs.Root(h.ctx)
		if err == nil {
			dm, err = c.db.DatasetsByRootHash(h.ctx, root)
		}
	}
	if err != nil {
		h.fail("k%d reading the dataset map: %v", c.idx, err)
	}
	got := map[string]hash.Hash{}
	if err := dm.IterAll(h.ctx, func(id string, addr hash.Hash) error { got[id] = addr; return nil }); err != nil {
		h.fail("k%d iterating the dataset map: %v", c.idx, err)
	}
	return got
}

func (h *verifRHarness) readback(c *verifRClient, exp verifRState) {
	got := h.readMap(c)
	ids := map[string]bool{}
	for id := range got {
		ids[id] = true
	}
	for id := range exp {
		ids[id] = true
	}
	sorted := make([]string, 0, len(ids))
	for id := range ids {
		sorted = append(sorted, id)
	}
	sort.Strings(sorted)
	for _, id := range sorted {
		sym, inModel := exp[id]
		addr, inReal := got[id]
		switch {
		case !inModel:
			h.fail("k%d reads dataset %s = %s (%s); in the model this client's view has no such dataset (view %s)", c.idx, id, addr, h.hash2sym[addr], exp)
		case !inReal:
			h.fail("k%d does not see dataset %s; in the model this client's view has it at %s (view %s)", c.idx, id, sym, exp)
		}
		if want, bound := h.sym2hash[sym]; bound {
			if want != addr {
				h.fail("k%d reads dataset %s = %s (%s); the model has %s (%s) (view %s)", c.idx, id, addr, h.hash2sym[addr], sym, want, exp)
			}
			continue
		}
		h.bind(c, id, sym, addr)
	}
}

// bind ties a symbol to the address it landed at and checks the stored value is what the op
// that created the symbol was asked to write.
func (h *verifRHarness) bind(c *verifRClient, id, sym string, addr hash.Hash) {
	if other, ok := h.hash2sym[addr]; ok {
		h.fail("dataset %s: expected the new value %s but found address %s, which is the existing value %s", id, sym, addr, other)
	}
	ctx := h.ctx
	v, err := c.vs.ReadValue(ctx, addr)
	if err != nil || v == nil {
		h.fail("dataset %s points at %s (%s) which k%d cannot read: %v", id, addr, sym, c.idx, err)
	}
	switch {
	case verifRIsCommitSym(sym):
		info := h.m.commits[sym]
		ps, err := datas.GetCommitParents(ctx, c.vs, v)
		if err != nil {
			h.fail("parents of %s: %v", sym, err)
		}
		var gotPs []string
		for _, p := range ps {
			gotPs = append(gotPs, h.hash2sym[p.Addr()]+"/"+p.Addr().String()[:6])
		}
		bad := len(ps) != len(info.parents)
		for i := 0; !bad && i < len(ps); i++ {
			bad = ps[i].Addr() != h.sym2hash[info.parents[i]]
		}
		if bad {
			h.fail("commit %s at %s has parents %v, want %v", sym, id, gotPs, info.parents)
		}
		rh, err := datas.GetCommitRootHash(v)
		if err != nil || rh != h.valueHash[info.value] {
			h.fail("commit %s at %s has root value %s (%v), want %s", sym, id, rh, err, info.value)
		}
		meta, err := datas.GetCommitMeta(ctx, v)
		if err != nil || meta.Description != info.meta {
			h.fail("dataset %s: expected commit %s (metadata %s), found a commit described as %q (%v)", id, sym, info.meta, meta.Description, err)
		}
	case verifRIsWSSym(sym):
		sm, ok := v.(types.SerialMessage)
		if !ok {
			h.fail("dataset %s: expected working set %s, found %T", id, sym, v)
		}
		msg, err := serial.TryGetRootAsWorkingSet([]byte(sm), serial.MessagePrefixSz)
		if err != nil {
			h.fail("dataset %s: expected working set %s: %v", id, sym, err)
		}
		w, s, meta := verifRWSParts(sym)
		wantDesc := ""
		if meta != 0 {
			wantDesc = fmt.Sprintf("m%d", meta)
		}
		if hash.New(msg.WorkingRootAddrBytes()) != h.valueHash[w] || hash.New(msg.StagedRootAddrBytes()) != h.valueHash[s] || string(msg.Desc()) != wantDesc {
			h.fail("dataset %s: expected working set %s, found working=%s staged=%s desc=%q", id, sym,
				h.hash2sym[hash.New(msg.WorkingRootAddrBytes())], h.hash2sym[hash.New(msg.StagedRootAddrBytes())], msg.Desc())
		}
	case verifRIsTagSym(sym):
		sm, ok := v.(types.SerialMessage)
		if !ok {
			h.fail("dataset %s: expected tag %s, found %T", id, sym, v)
		}
		msg, err := serial.TryGetRootAsTag([]byte(sm), serial.MessagePrefixSz)
		if err != nil {
			h.fail("dataset %s: expected tag %s: %v", id, sym, err)
		}
		cm, _ := verifRTagParts(sym)
		if hash.New(msg.CommitAddrBytes()) != h.sym2hash[cm] || string(msg.Desc()) != sym {
			h.fail("dataset %s: expected tag %s, found a tag of %s described %q", id, sym, h.hash2sym[hash.New(msg.CommitAddrBytes())], msg.Desc())
		}
	default:
		h.fail("harness bug: unknown symbol kind %s", sym)
	}
	h.sym2hash[sym], h.hash2sym[addr] = addr, sym
}

// step = predict + exec of one top-level op.
func (h *verifRHarness) step(op *verifROp) *verifROutcome {
	exp := h.m.predict(op)
	h.exec(op, exp, true)
	return exp
}
