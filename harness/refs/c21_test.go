package datas_test

// C21 — a commit and its working-set update land together.
//
// Live part: schedules dominated by CommitWithWorkingSet racing UpdateWorkingSet / SetHead /
// Commit of other clients (injected right before the store-root swap); after every call, and
// inside every injection point, the whole dataset map — in particular the (head, working set)
// pair of every branch — is read from one store root and must equal the model, so a rejected
// combined update changes neither component and an accepted one changes both.
//
// Crash part: the same schedules on a journaling NBS store. After the history the journal is
// cut at every record boundary (and +-1 byte, and at inner offsets) after the setup; the cut
// image is opened as a fresh store and its dataset map must be exactly the model's map after
// the op that wrote the last complete root record of the image: never (new head, old working
// set) or (old head, new working set), never older than the last acknowledged op.

import (
	"encoding/binary"
	"fmt"
	"os"
	"path/filepath"
	"sort"
	"strings"
	"testing"

	"pgregory.net/rapid"

	"github.com/dolthub/dolt/go/store/chunks"
	"github.com/dolthub/dolt/go/store/datas"
	"github.com/dolthub/dolt/go/store/hash"
	"github.com/dolthub/dolt/go/store/nbs"
	"github.com/dolthub/dolt/go/zzverif/vh"
)

const c21RuleLive = "K=2-4 datas.Database clients over one database (one shared memory view / one view per client / one shared journaling NBS store), schedules of 5-30 calls on 1-2 branches with working sets: mostly CommitWithWorkingSet (fresh or stale head / working-set dataset handles; prevHash taken from the handle, empty, or re-read right before the call while the stale handles are kept; the new working set is the value the caller's handle shows 30% of the time so that working-set values recur; clean or dirty new working set; plain, merge, force and amend forms incl. the amend that leaves the commit unchanged; a third of the commits take pinned metadata from a pool of two, so different clients rebuild the byte-identical commit with different working sets), against UpdateWorkingSet, SetHead (with and without working-set path), Commit, FastForward, Delete by other clients, 1-2 of them injected right before a store-root swap of about 40% of the calls. Oracle: dataset-map model; after every call and at every injection point the map read from one store root (Root + DatasetsByRootHash, or Datasets) equals the model, so the (head, working set) pair of a branch is always a pair of the model's history, an accepted combined update changed both components and a rejected one (ErrOptimisticLockFailed for a stale working set, checked first; ErrMergeNeeded for a moved head) changed neither. Non-trivial: the history has >= 1 combined update rejected for a stale working set, >= 1 rejected for a moved head and >= 1 accepted; distinct by the hash of (mode, K, op sequence)."

const c21RuleCrash = "histories as in the live part on a journaling NBS store (nbs.NewLocalJournalingStore, 6-16 calls after a fixed setup); after the history the store directory is copied (manifest, journal, index as they are while the store is open) and the journal copy is truncated at the end of every root-hash record after the setup and, in non-trivial histories, for every accepted combined update at every record boundary of its flush (commit, closure, working-set, map and store-root chunk records, then the root record), one byte before and after the end of its root record and inside one of its chunk records; each image is opened with a new journaling store and its dataset map must equal the model's map after the op that wrote the last complete root-hash record of the image (which is never older than the last op acknowledged before the cut). Non-trivial: as in the live part (which implies images that end between the commit / working-set chunks and the root record of a combined update); distinct by the hash of (K, op sequence)."

type c21Stats struct {
	lockFail, mergeFail, okCombined int
	classes                         map[string]bool
}

func (s *c21Stats) note(op *verifROp, out *verifROutcome) {
	if op.Kind == verifRCommitWS {
		switch {
		case out.OK:
			s.okCombined++
			if out.Retries > 0 {
				s.classes["combined_ok_after_lost_swap"] = true
			}
		case out.Err == "lock":
			s.lockFail++
			if out.Retries > 0 {
				s.classes["combined_stale_ws_seen_on_retry"] = true
			}
		case out.Err == "merge":
			s.mergeFail++
			if out.Retries > 0 {
				s.classes["combined_moved_head_seen_on_retry"] = true
			}
		}
	}
	if op.Kind == verifRCommitWS && out.Rebuilt {
		s.classes["combined_rebuilds_identical_commit"] = true
		if !out.OK {
			s.classes["combined_rebuilds_identical_commit_rejected:"+out.Err] = true
		} else if out.SnapID == op.NewSym {
			s.classes["combined_noop_amend_ok"] = true
		}
	}
	if !out.OK {
		s.classes["err:"+out.Err+":"+op.Kind] = true
	} else if op.Kind != verifRRefresh && op.Kind != verifRRebase {
		s.classes["ok:"+op.Kind] = true
	}
	for i, n := range out.Nested {
		s.classes["injected:"+op.Inter[i].Kind+"_into_"+op.Kind] = true
		s.note(op.Inter[i], n)
	}
}

type c21Event struct {
	off      int64
	state    verifRState
	desc     string
	combined bool // an accepted CommitWithWorkingSet
}

func c21Gen(h *verifRHarness, nb int, values []string) *verifRGen {
	g := &verifRGen{h: h, values: values, interPct: 40, metaMax: 2, poolPct: 35, amendPct: 14}
	for i := 0; i < nb; i++ {
		g.branches = append(g.branches, fmt.Sprintf("%sb%d", verifRBranchPfx, i))
		g.wss = append(g.wss, fmt.Sprintf("%sb%d", verifRWSPfx, i))
	}
	g.tags = []string{verifRTagPfx + "t0"}
	w := map[string]int{verifRCommitWS: 40, verifRUpdateWS: 16, verifRSetHead: 9, verifRCommit: 10, verifRFF: 5, verifRDelete: 3, verifRRefresh: 12, verifRRebase: 0}
	if h.m.separate {
		w[verifRRebase] = 6
	}
	g.kinds = verifRWeighted(w, verifRKindOrder)
	g.nestKind = verifRWeighted(map[string]int{verifRUpdateWS: 30, verifRSetHead: 18, verifRCommit: 26, verifRCommitWS: 20, verifRDelete: 4, verifRFF: 4}, verifRKindOrder)
	return g
}

func c21Case(t *testing.T, rt *rapid.T, rec *vh.Recorder, modes []string, crash bool) {
	mode := rapid.SampledFrom(modes).Draw(rt, "mode")
	k := rapid.IntRange(2, 4).Draw(rt, "clients")
	nb := rapid.IntRange(1, 2).Draw(rt, "branches")
	values := []string{"v0", "v1", "v2"}
	h := verifROpen(t, rt, mode, k, values)
	defer h.close()
	g := c21Gen(h, nb, values)

	var events []c21Event
	journal := ""
	if crash {
		journal = filepath.Join(h.dir, chunks.JournalFileID)
		h.afterEvent = func(op *verifROp, exp *verifROutcome) {
			var sz int64
			if fi, err := os.Stat(journal); err == nil {
				sz = fi.Size()
			}
			events = append(events, c21Event{off: sz, state: exp.Post.global, desc: op.String(), combined: op.Kind == verifRCommitWS && exp.OK})
		}
	}
	g.setup(true)
	setupLog := len(h.log)
	setupEvents := len(events)

	st := &c21Stats{classes: map[string]bool{}}
	lo, hi := 5, 30
	if crash {
		lo, hi = 6, 16
	}
	n := rapid.IntRange(lo, hi).Draw(rt, "nops")
	for i := 0; i < n; i++ {
		client := rapid.IntRange(0, k-1).Draw(rt, fmt.Sprintf("op%d.client", i))
		op := g.op(rt, fmt.Sprintf("op%d", i), client, false, -1)
		out := h.step(op)
		st.note(op, out)
	}
	for c := range h.clients {
		h.step(&verifROp{Kind: verifRRebase, Client: c})
	}
	nontrivial := st.lockFail >= 1 && st.mergeFail >= 1 && st.okCombined >= 1
	var cl []string
	for c := range st.classes {
		cl = append(cl, c)
	}
	sort.Strings(cl)
	cl = append(cl, "mode="+mode, fmt.Sprintf("K=%d", k))
	desc := fmt.Sprintf("mode=%s K=%d branches=%d: %s", mode, k, nb, strings.Join(h.log[setupLog:], "; "))
	if crash {
		inner := rapid.Uint32().Draw(rt, "innerSeed")
		images, between := c21Cuts(t, h, events, setupEvents, inner, nontrivial)
		rec.Evals(images)
		rec.Class("images", images)
		rec.Class("images_inside_a_combined_update", between)
	}
	rec.Case(desc, nontrivial, cl...)
}

type c21Rec struct {
	start, end int64
	root       bool
	addr       hash.Hash
}

// c21ParseJournal walks the record framing of a chunk journal (uint32 big-endian total length,
// then tagged fields; kind 1 = root hash record, 2 = chunk record).
func c21ParseJournal(b []byte) ([]c21Rec, error) {
	var out []c21Rec
	off := int64(0)
	for off < int64(len(b)) {
		if int64(len(b))-off < 8 {
			return nil, fmt.Errorf("trailing %d bytes at %d", int64(len(b))-off, off)
		}
		l := int64(binary.BigEndian.Uint32(b[off:]))
		if l < 8 || off+l > int64(len(b)) {
			return nil, fmt.Errorf("record at %d has length %d (file %d)", off, l, len(b))
		}
		r := c21Rec{start: off, end: off + l}
		if b[off+4] != 1 {
			return nil, fmt.Errorf("record at %d does not start with the kind tag", off)
		}
		switch b[off+5] {
		case 1:
			r.root = true
			// kind(2) timestamp(1+8) addr tag(1) addr(20)
			if l != 40 || b[off+6] != 4 || b[off+15] != 2 {
				return nil, fmt.Errorf("root record at %d has an unexpected layout", off)
			}
			r.addr = hash.New(b[off+16 : off+36])
		case 2:
		default:
			return nil, fmt.Errorf("record at %d has kind %d", off, b[off+5])
		}
		out = append(out, r)
		off += l
	}
	return out, nil
}

// c21Cuts enumerates the crash images of the finished history in h and checks each of them.
func c21Cuts(t *testing.T, h *verifRHarness, events []c21Event, setupEvents int, innerSeed uint32, full bool) (images, between int) {
	journal := filepath.Join(h.dir, chunks.JournalFileID)
	jb, err := os.ReadFile(journal)
	if err != nil {
		vh.Inconclusive(t, "cannot read the journal: %v", err)
	}
	// the files next to the journal as they are while the store is open (a crash leaves these)
	side := map[string][]byte{}
	ents, err := os.ReadDir(h.dir)
	if err != nil {
		vh.Inconclusive(t, "cannot list the store directory: %v", err)
	}
	for _, e := range ents {
		if e.IsDir() || e.Name() == chunks.JournalFileID || e.Name() == "LOCK" {
			continue
		}
		b, err := os.ReadFile(filepath.Join(h.dir, e.Name()))
		if err != nil {
			vh.Inconclusive(t, "cannot read %s: %v", e.Name(), err)
		}
		side[e.Name()] = b
	}
	recs, err := c21ParseJournal(jb)
	if err != nil {
		h.fail("the journal written by the history does not parse: %v", err)
	}
	if int64(len(jb)) != events[len(events)-1].off {
		h.fail("journal has %d bytes but the last acknowledged op left it at %d", len(jb), events[len(events)-1].off)
	}
	setupEnd := events[setupEvents-1].off
	setupState := events[setupEvents-1].state
	// owner of a root record = the first op that returned with the journal at or past its end
	ownerOf := func(r *c21Rec) *c21Event {
		for i := range events {
			if events[i].off >= r.end {
				return &events[i]
			}
		}
		h.fail("harness bug: root record ending at %d has no owner", r.end)
		return nil
	}
	// stateAt: the model's map for the image that ends at x, and whether the image ends inside
	// the flush (chunk records + root record) of an accepted combined update
	stateAt := func(x int64) (want verifRState, owner string, rootEnd int64, inCombined bool) {
		var last, next *c21Rec
		for i := range recs {
			if !recs[i].root {
				continue
			}
			if recs[i].end <= x {
				last = &recs[i]
			} else if next == nil {
				next = &recs[i]
			}
		}
		want, owner, rootEnd = setupState, "setup", setupEnd
		if last != nil && last.end > setupEnd {
			e := ownerOf(last)
			want, owner, rootEnd = e.state, e.desc, last.end
		}
		if next != nil && x > rootEnd {
			inCombined = ownerOf(next).combined
		}
		return
	}
	// Cut set. Every root record after the setup: the image ending exactly there. In non-trivial
	// histories (full) every accepted combined update in addition: every record boundary of its
	// flush (the chunk records of the commit, its closure, the working set, the new map and store
	// root, then the root record), the byte before and after its root record's end (a torn root
	// record; a torn length prefix of the next record) and one offset inside one of its chunk
	// records. Opening an image costs ~20 ms (the journal bootstrap allocates > 20 MB), which is
	// what bounds the number of images.
	cuts := map[int64]bool{}
	prevRootEnd := int64(0)
	flushStart := 0
	for i := range recs {
		r := recs[i]
		if !r.root {
			continue
		}
		if r.end > setupEnd {
			cuts[r.end] = true
			if full && ownerOf(&recs[i]).combined {
				for j := flushStart; j <= i; j++ {
					if recs[j].start >= setupEnd {
						cuts[recs[j].start] = true
					}
				}
				cuts[r.end-1] = true
				if r.end+1 <= int64(len(jb)) {
					cuts[r.end+1] = true
				}
				if i > flushStart {
					c := recs[flushStart+int((uint64(innerSeed)*2654435761+uint64(i))%uint64(i-flushStart))]
					if c.start >= setupEnd && c.end-c.start > 2 {
						cuts[c.start+1+int64((uint64(innerSeed)*40503+uint64(i))%uint64(c.end-c.start-1))] = true
					}
				}
			}
		}
		prevRootEnd = r.end
		flushStart = i + 1
	}
	_ = prevRootEnd
	cuts[setupEnd] = true
	var xs []int64
	for x := range cuts {
		xs = append(xs, x)
	}
	sort.Slice(xs, func(i, j int) bool { return xs[i] < xs[j] })

	img, rm := vh.ScratchDir(t, "refsimg")
	defer rm()
	for _, x := range xs {
		want, owner, rootEnd, inCombined := stateAt(x)
		// last op acknowledged before the cut
		ack := "setup"
		for _, e := range events {
			if e.off <= x {
				ack = e.desc
			}
		}
		for name, b := range side {
			if err := os.WriteFile(filepath.Join(img, name), b, 0o644); err != nil {
				vh.Inconclusive(t, "cannot write image: %v", err)
			}
		}
		if err := os.WriteFile(filepath.Join(img, chunks.JournalFileID), jb[:x], 0o644); err != nil {
			vh.Inconclusive(t, "cannot write image: %v", err)
		}
		got, err := c21ReadImage(h, img)
		if err != nil {
			h.fail("crash image: journal cut at %d of %d (last complete root record ends at %d, written by %s; last acknowledged op %s): the store does not open: %v", x, len(jb), rootEnd, owner, ack, err)
		}
		if !got.equal(want) {
			h.fail("crash image: journal cut at %d of %d (last complete root record ends at %d, written by %s; last acknowledged op %s): reopened map %s, want %s", x, len(jb), rootEnd, owner, ack, got, want)
		}
		images++
		if inCombined {
			between++
		}
	}
	return images, between
}

// c21ReadImage opens the store directory dir with a fresh journaling store and returns its
// dataset map in model symbols.
func c21ReadImage(h *verifRHarness, dir string) (verifRState, error) {
	st, err := nbs.NewLocalJournalingStore(h.ctx, verifRNBF.VersionString(), dir, nbs.NewUnlimitedMemQuotaProvider(), false, nil)
	if err != nil {
		return nil, err
	}
	defer st.Close()
	db := datas.NewDatabase(st)
	dm, err := db.Datasets(h.ctx)
	if err != nil {
		return nil, err
	}
	got := verifRState{}
	err = dm.IterAll(h.ctx, func(id string, addr hash.Hash) error {
		sym, ok := h.hash2sym[addr]
		if !ok {
			sym = "?" + addr.String()
		}
		got[id] = sym
		return nil
	})
	return got, err
}

func TestVerif_C21(t *testing.T) {
	assume := []string{
		"datasets keep their kind (branch ids hold commits, working-set ids working sets); one never-touched branch keeps the map non-empty",
		"a client names only commits its own store handle can read",
		"interleavings are injected only at ChunkStore.Commit, between database.update's root read and its swap",
		"crash images are prefixes of the journal file (torn tail, nothing reordered) next to the manifest and index files as they are while the store is open; cuts start after the fixed setup, when the manifest already names the journal",
		"a shared NomsBlockStore acknowledges a no-op edit (new root == old root) with nothing to persist without comparing roots; such a call is predicted to succeed without effect",
	}
	recLive := vh.NewRecorder("C21", "live", "exploration", c21RuleLive, assume...)
	defer recLive.Write(t)
	recCrash := vh.NewRecorder("C21", "crash", "fault_enumeration", c21RuleCrash, assume...)
	defer recCrash.Write(t)
	vh.Check(t, "live", 500, 2000, func(rt *rapid.T) {
		c21Case(t, rt, recLive, []string{verifRModeMemShared, verifRModeMemViews, verifRModeJournal}, false)
	})
	vh.Check(t, "crash", 32, 80, func(rt *rapid.T) {
		c21Case(t, rt, recCrash, []string{verifRModeJournal}, true)
	})
}

const c21RuleConc = "goroutine variant (binary built with -race): G=2-4 goroutines over one memory view / NBS store / journaling store run plans dominated by CommitWithWorkingSet against UpdateWorkingSet / SetHead / Commit, with a quarter of the plan slots being reads of the whole dataset map from one store root (Root + DatasetsByRootHash); the history is checked with porcupine, so every (head, working set) pair any reader saw must be a state of one sequential order of the accepted calls. Non-trivial: >= 1 rejected call and overlapping accepted writes of different goroutines."

// TestVerif_C21_goroutines: readers racing combined updates (thorough tier, -race).
func TestVerif_C21_goroutines(t *testing.T) {
	rec := vh.NewRecorder("C21", "goroutines", "exploration", c21RuleConc,
		"goroutine variant: a history porcupine cannot decide within 30 s is counted as undecided, not as a failure")
	defer rec.Write(t)
	cfg := verifCConfig{part: "goroutines", readPc: 25,
		kinds: verifRWeighted(map[string]int{verifRCommitWS: 40, verifRUpdateWS: 16, verifRSetHead: 10, verifRCommit: 12, verifRFF: 4, verifRDelete: 3, verifRRefresh: 8}, verifRKindOrder)}
	vh.Check(t, "goroutines", 40, 300, func(rt *rapid.T) { verifCCase(t, rt, rec, cfg) })
}
