package datas_test

// Generator of client operations for C20 / C21. Every choice is a rapid draw; which commits a
// client may name depends on the model (only commits the client's store handle can read).

import (
	"fmt"
	"sort"

	"pgregory.net/rapid"
)

type verifRGen struct {
	h        *verifRHarness
	branches []string
	wss      []string // wss[i] is the working set of branches[i]
	tags     []string
	values   []string
	kinds    []string // op kinds, repeated by weight
	nestKind []string // kinds of the ops injected at a swap
	interPct int      // % of mutating top-level ops that get injected ops
	metaMax  int
	poolPct  int // % of commits whose metadata comes from the two-element pool (identical commits can be rebuilt)
	amendPct int // % of commit calls that are amends
}

const verifRKeep = verifRBranchPfx + "keep"

// verifRWeighted lists the kinds, each repeated by its weight, heaviest first (rapid's
// SampledFrom leans towards the front of the slice).
func verifRWeighted(w map[string]int, order []string) []string {
	order = append([]string{}, order...)
	sort.SliceStable(order, func(i, j int) bool { return w[order[i]] > w[order[j]] })
	var out []string
	for _, k := range order {
		for i := 0; i < w[k]; i++ {
			out = append(out, k)
		}
	}
	return out
}

var verifRKindOrder = []string{verifRCommit, verifRCommitWS, verifRUpdateWS, verifRFF, verifRSetHead, verifRTag, verifRDelete, verifRRefresh, verifRRebase}

// newTag is metadata no other commit uses.
func (g *verifRGen) newTag() string {
	g.h.nextN++
	return fmt.Sprintf("u%d", g.h.nextN)
}

func (g *verifRGen) pickCommit(rt *rapid.T, label string, client int) string {
	cs := g.h.m.candidates(client)
	if len(cs) == 0 {
		return ""
	}
	// half of the time one of the three most recent commits
	if len(cs) > 3 && rapid.Bool().Draw(rt, label+".recent") {
		cs = cs[len(cs)-3:]
	}
	return cs[rapid.IntRange(0, len(cs)-1).Draw(rt, label)]
}

// setup creates the initial history through the same predict/exec path as everything else.
func (g *verifRGen) setup(withB1 bool) {
	h := g.h
	first := &verifROp{Kind: verifRCommit, Client: 0, ID: verifRKeep, Value: g.values[0], MetaTag: g.newTag()}
	h.step(first)
	c1 := first.NewSym
	h.step(&verifROp{Kind: verifRSetHead, Client: 0, ID: g.branches[0], WS: g.wss[0], Target: c1, Fresh: true})
	if withB1 && len(g.branches) > 1 {
		h.step(&verifROp{Kind: verifRSetHead, Client: 0, ID: g.branches[1], Target: c1, Fresh: true})
	}
	for c := range h.clients {
		h.step(&verifROp{Kind: verifRRebase, Client: c})
		for _, id := range g.allIDs() {
			h.step(&verifROp{Kind: verifRRefresh, Client: c, ID: id})
		}
	}
}

func (g *verifRGen) allIDs() []string {
	var ids []string
	ids = append(ids, g.branches...)
	ids = append(ids, g.wss...)
	ids = append(ids, g.tags...)
	return ids
}

// op draws one operation of client. hot is a branch index injected ops prefer (the dataset
// the enclosing op works on), or -1.
func (g *verifRGen) op(rt *rapid.T, label string, client int, nested bool, hot int) *verifROp {
	h := g.h
	kinds := g.kinds
	if nested {
		kinds = g.nestKind
	}
	kind := rapid.SampledFrom(kinds).Draw(rt, label+".kind")
	if kind == verifRRebase && !h.m.separate {
		kind = verifRRefresh
	}
	bi := rapid.IntRange(0, len(g.branches)-1).Draw(rt, label+".branch")
	if hot >= 0 && rapid.IntRange(0, 2).Draw(rt, label+".hot") > 0 {
		bi = hot
	}
	op := &verifROp{Kind: kind, Client: client}
	snapOf := func(id string) string { return h.m.clients[client].snap[id] }
	switch kind {
	case verifRRebase:
		return op
	case verifRRefresh:
		ids := g.allIDs()
		op.ID = ids[rapid.IntRange(0, len(ids)-1).Draw(rt, label+".id")]
		return op
	case verifRCommit, verifRCommitWS:
		op.ID = g.branches[bi]
		op.Fresh = rapid.IntRange(0, 9).Draw(rt, label+".fresh") < 4
		op.Value = rapid.SampledFrom(g.values).Draw(rt, label+".value")
		op.MetaTag = g.newTag()
		if rapid.IntRange(0, 99).Draw(rt, label+".pooledMeta") < g.poolPct {
			// pinned metadata from a tiny pool: another call with the same value and parents builds
			// the very same commit (a replayed request, a fixed --date)
			op.MetaTag = rapid.SampledFrom([]string{"p0", "p1"}).Draw(rt, label+".meta")
		}
		snap := snapOf(op.ID)
		amendOf := func(am string) {
			op.Amend = am
			op.Parents = append([]string{}, h.m.commits[am].parents...)
			if rapid.IntRange(0, 2).Draw(rt, label+".amendSame") > 0 {
				// an amend that changes nothing in the commit (only the working set that goes with it)
				op.Value, op.MetaTag = h.m.commits[am].value, h.m.commits[am].meta
			}
		}
		if rapid.IntRange(0, 99).Draw(rt, label+".isAmend") < g.amendPct {
			// amend of the head the caller saw (or, rarely, of a commit that is not the head)
			am := snap
			if am == "" || rapid.IntRange(0, 4).Draw(rt, label+".amendOther") == 0 {
				am = g.pickCommit(rt, label+".amend", client)
			}
			if am != "" {
				amendOf(am)
			}
		} else {
			switch v := rapid.IntRange(0, 10).Draw(rt, label+".variant"); {
			case v < 7: // plain: datas fills in the head as the only parent
			case v < 9: // merge commit naming the head the caller saw
				other := g.pickCommit(rt, label+".other", client)
				if snap != "" {
					op.Parents = []string{snap}
				}
				if other != "" && other != snap {
					op.Parents = append(op.Parents, other)
				}
			case v < 10: // parents that do not name the head the caller holds
				if other := g.pickCommit(rt, label+".other", client); other != "" {
					op.Parents = []string{other}
				}
			default: // force: no parent check
				op.Force = true
				if other := g.pickCommit(rt, label+".other", client); other != "" {
					op.Parents = []string{other}
				}
			}
		}
		if kind == verifRCommitWS {
			op.WS = g.wss[bi]
			g.drawSpec(rt, label, op)
			// callers stage what they commit: most of the time the new working set is clean
			if rapid.IntRange(0, 3).Draw(rt, label+".cleanws") > 0 {
				op.Working, op.Staged = op.Value, op.Value
			}
			g.keepWS(rt, label, op, client, op.WS)
		}
	case verifRUpdateWS:
		op.ID = g.wss[bi]
		op.Fresh = rapid.IntRange(0, 9).Draw(rt, label+".fresh") < 4
		g.drawSpec(rt, label, op)
		g.keepWS(rt, label, op, client, op.ID)
	case verifRFF, verifRSetHead:
		op.ID = g.branches[bi]
		op.Fresh = rapid.IntRange(0, 9).Draw(rt, label+".fresh") < 5
		op.Target = g.pickCommit(rt, label+".target", client)
		if rapid.Bool().Draw(rt, label+".withWS") {
			op.WS = g.wss[bi]
		}
		if kind == verifRFF {
			op.AllowDirty = rapid.IntRange(0, 3).Draw(rt, label+".allowDirty") == 0
		}
	case verifRTag:
		op.ID = rapid.SampledFrom(g.tags).Draw(rt, label+".tag")
		op.Fresh = rapid.Bool().Draw(rt, label+".fresh")
		op.Target = g.pickCommit(rt, label+".target", client)
		g.h.nextN++
		op.NewSym = verifRTagSym(op.Target, g.h.nextN)
	case verifRDelete:
		switch rapid.IntRange(0, 9).Draw(rt, label+".what") {
		case 0:
			op.ID = rapid.SampledFrom(g.tags).Draw(rt, label+".tag")
		case 1:
			op.ID = g.wss[bi]
		default:
			op.ID = g.branches[bi]
			if rapid.IntRange(0, 2).Draw(rt, label+".withWS") > 0 {
				op.WS = g.wss[bi]
			}
		}
		op.Fresh = rapid.Bool().Draw(rt, label+".fresh")
	}
	if !nested && len(h.clients) > 1 && rapid.IntRange(0, 99).Draw(rt, label+".inter") < g.interPct {
		n := 1
		if rapid.IntRange(0, 3).Draw(rt, label+".inter2") == 0 {
			n = 2
		}
		for i := 0; i < n; i++ {
			oc := rapid.IntRange(0, len(h.clients)-2).Draw(rt, fmt.Sprintf("%s.in%d.client", label, i))
			if oc >= client {
				oc++
			}
			op.Inter = append(op.Inter, g.op(rt, fmt.Sprintf("%s.in%d", label, i), oc, true, bi))
		}
	}
	return op
}

func (g *verifRGen) drawSpec(rt *rapid.T, label string, op *verifROp) {
	op.Working = rapid.SampledFrom(g.values).Draw(rt, label+".working")
	op.Staged = op.Working
	if rapid.IntRange(0, 2).Draw(rt, label+".dirty") == 0 {
		op.Staged = rapid.SampledFrom(g.values).Draw(rt, label+".staged")
	}
	op.Meta = rapid.IntRange(0, g.metaMax).Draw(rt, label+".meta")
	op.PrevEmpty = rapid.IntRange(0, 9).Draw(rt, label+".prevEmpty") == 0
	// a caller that keeps its dataset handles but re-reads the working set's address
	op.PrevFresh = !op.PrevEmpty && rapid.IntRange(0, 9).Draw(rt, label+".prevReread") < 3
}

// keepWS: part of the time the working set written is the one the caller's handle shows (a
// commit that leaves the working set as the caller found it), so working-set values recur.
func (g *verifRGen) keepWS(rt *rapid.T, label string, op *verifROp, client int, wsID string) {
	cur := g.h.m.clients[client].snap[wsID]
	if cur == "" || !verifRIsWSSym(cur) || rapid.IntRange(0, 9).Draw(rt, label+".keepWS") >= 3 {
		return
	}
	op.Working, op.Staged, op.Meta = verifRWSParts(cur)
}
