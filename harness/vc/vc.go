// Package vc is the harness' chunk-set kit: generated chunk sets whose addresses are built to
// collide on the 8-byte prefix that every on-disk index in store/nbs is keyed by, absent-probe
// construction around the present addresses, and a tiny "chunk with references" encoding for
// reference-graph checks.
//
// Two kinds of chunks are mixed: *genuine* chunks (address == hash.Of(content)) and
// *forged-address* chunks (chunks.NewChunkWithHash) whose addresses are drawn from a small pool of
// 8-byte prefixes x small 12-byte suffix universe. Forged addresses never share their first 16
// bytes with another present address (the chunk journal's cached index is keyed by 16 bytes and
// documents them as globally unique).
//
// Virtual package github.com/dolthub/dolt/go/zzverif/vc (overlay only). Imports store/chunks and
// store/hash, never store/nbs.
package vc

import (
	"bytes"
	"encoding/binary"
	"fmt"
	"sort"
	"strings"

	"pgregory.net/rapid"

	"github.com/dolthub/dolt/go/store/chunks"
	"github.com/dolthub/dolt/go/store/hash"
)

// Chunk is one generated chunk.
type Chunk struct {
	Addr    hash.Hash
	Data    []byte
	Genuine bool   // Addr == hash.Of(Data)
	Kind    string // content kind: one, small, comp, rand, near64k, big
	Refs    []hash.Hash
}

// C converts to a dolt chunk (address taken as is, never recomputed).
func (c Chunk) C() chunks.Chunk { return chunks.NewChunkWithHash(c.Addr, c.Data) }

func (c Chunk) String() string {
	g := "F"
	if c.Genuine {
		g = "G"
	}
	return fmt.Sprintf("%s:%s:%s/%d", g, Short(c.Addr), c.Kind, len(c.Data))
}

// Short renders an address as hex prefix|suffix-head so that shared prefixes are visible.
func Short(h hash.Hash) string {
	return fmt.Sprintf("%x|%x|%x", h[:8], h[8:16], h[16:])
}

// Prefix is the big-endian 8-byte index prefix.
func Prefix(h hash.Hash) uint64 { return binary.BigEndian.Uint64(h[:8]) }

// ---------------------------------------------------------------------------------------
// deterministic content expansion (the seed is drawn through rapid; the expansion is a pure
// function of it, so cases stay reproducible and shrinkable without drawing 64 KiB bytewise)

type splitmix struct{ s uint64 }

func (r *splitmix) next() uint64 {
	r.s += 0x9e3779b97f4a7c15
	z := r.s
	z = (z ^ (z >> 30)) * 0xbf58476d1ce4e5b9
	z = (z ^ (z >> 27)) * 0x94d049bb133111eb
	return z ^ (z >> 31)
}

// RandBytes expands seed to n incompressible bytes.
func RandBytes(seed uint64, n int) []byte {
	r := splitmix{seed}
	b := make([]byte, n+8)
	for i := 0; i < n; i += 8 {
		binary.LittleEndian.PutUint64(b[i:], r.next())
	}
	return b[:n]
}

// CompBytes expands seed to n highly compressible bytes (a short phrase repeated, with a
// sparse sprinkling of varying bytes so that different seeds differ throughout).
func CompBytes(seed uint64, n int) []byte {
	r := splitmix{seed}
	phrase := []byte(fmt.Sprintf("row-%04x;col=%02x;", r.next()&0xffff, r.next()&0xff))
	b := make([]byte, 0, n+len(phrase))
	for len(b) < n {
		b = append(b, phrase...)
		if r.next()%7 == 0 {
			b = append(b, byte(r.next()))
		}
	}
	return b[:n]
}

// ---------------------------------------------------------------------------------------
// generation

// Opts bounds a generated set.
type Opts struct {
	Min, Max   int  // number of distinct chunks
	MaxNear64k int  // how many chunks around the 2^16 snappy block boundary (default 2)
	Big        int  // how many multi-megabyte chunks may appear (default 0)
	ForgedOnly bool // no genuine chunks (then every chunk is in a collision pool)
	GenuineOnly bool // content-hash addresses only
	// WithRefs: chunks carry synthetic references (see EncodeRefs) to earlier chunks of the set.
	WithRefs bool
}

// Set is a generated set of chunks with pairwise distinct addresses, in insertion order.
type Set struct {
	Chunks   []Chunk
	Prefixes []uint64 // the collision pool of this case
	byAddr   map[hash.Hash]int
	by16     map[[16]byte]struct{}
	contents map[string]struct{} // contents are pairwise distinct too (see Grow)
	// 12-byte suffixes are pairwise distinct as well: a table file is *named* by the hash of its
	// chunks' suffixes, so two files holding chunks that differ only in the prefix would get the
	// same file name and overwrite each other — impossible with real hashes, an artefact of forging.
	bySuffix map[[12]byte]struct{}
	nextOrd  uint32
}

func NewSet() *Set {
	return &Set{byAddr: map[hash.Hash]int{}, by16: map[[16]byte]struct{}{}, contents: map[string]struct{}{}, bySuffix: map[[12]byte]struct{}{}}
}

func key16(h hash.Hash) (k [16]byte) { copy(k[:], h[:16]); return }

// Has reports whether a chunk with this address is in the set.
func (s *Set) Has(h hash.Hash) bool { _, ok := s.byAddr[h]; return ok }

// Get returns the chunk stored under h.
func (s *Set) Get(h hash.Hash) (Chunk, bool) {
	i, ok := s.byAddr[h]
	if !ok {
		return Chunk{}, false
	}
	return s.Chunks[i], true
}

// Shares16 reports whether h has the first 16 bytes of a present address.
func (s *Set) Shares16(h hash.Hash) bool { _, ok := s.by16[key16(h)]; return ok }

// Add appends c unless its address (or its first 16 bytes) is already taken.
func (s *Set) Add(c Chunk) bool {
	if c.Addr.IsEmpty() {
		return false
	}
	if _, ok := s.byAddr[c.Addr]; ok {
		return false
	}
	if _, ok := s.by16[key16(c.Addr)]; ok {
		return false
	}
	var sfx [12]byte
	copy(sfx[:], c.Addr[8:])
	if _, ok := s.bySuffix[sfx]; ok {
		return false
	}
	s.bySuffix[sfx] = struct{}{}
	s.byAddr[c.Addr] = len(s.Chunks)
	s.by16[key16(c.Addr)] = struct{}{}
	s.Chunks = append(s.Chunks, c)
	return true
}

// GenPrefixPool draws the per-case pool of colliding prefixes: 1-4 random ones, some of their
// +-1 neighbours, and the two extremes.
func GenPrefixPool(t *rapid.T, label string) []uint64 {
	n := rapid.IntRange(1, 4).Draw(t, label+".npfx")
	var pool []uint64
	for i := 0; i < n; i++ {
		p := rapid.Uint64().Draw(t, fmt.Sprintf("%s.pfx%d", label, i))
		pool = append(pool, p)
		switch rapid.IntRange(0, 3).Draw(t, fmt.Sprintf("%s.adj%d", label, i)) {
		case 1:
			pool = append(pool, p+1)
		case 2:
			pool = append(pool, p-1)
		case 3:
			pool = append(pool, p+1, p-1)
		}
	}
	if rapid.IntRange(0, 2).Draw(t, label+".extremes") > 0 {
		pool = append(pool, 0, ^uint64(0))
	}
	return pool
}

var midUniverse = []uint64{0, 1, 2, 3, 4, 5, 6, 7, 8, 9, 10, 11, 12, 13, 14, 15, 16, 17, 18, 19, 20, 21, 22, 23, 24, 25, 26, 27, 28, 29, 30, 31, 0x7fffffffffffffff, 0x8000000000000000, 0xfffffffffffffffe, 0xffffffffffffffff,
	0x0100000000000000, 0x00000000000000ff, 0xff00000000000000}
var tailUniverse = []uint32{0, 1, 2, 0x7fffffff, 0x80000000, 0xfffffffe, 0xffffffff}

// ForgeAddr builds prefix | mid(8) | tail(4).
func ForgeAddr(prefix, mid uint64, tail uint32) (h hash.Hash) {
	binary.BigEndian.PutUint64(h[0:8], prefix)
	binary.BigEndian.PutUint64(h[8:16], mid)
	binary.BigEndian.PutUint32(h[16:20], tail)
	return
}

// GenForgedAddr draws an address from the pool x small suffix universe.
func GenForgedAddr(t *rapid.T, label string, pool []uint64) hash.Hash {
	p := pool[rapid.IntRange(0, len(pool)-1).Draw(t, label+".p")]
	var mid uint64
	if rapid.IntRange(0, 4).Draw(t, label+".midkind") <= 1 {
		mid = rapid.Uint64().Draw(t, label+".mid")
	} else {
		mid = midUniverse[rapid.IntRange(0, len(midUniverse)-1).Draw(t, label+".midi")]
	}
	tail := tailUniverse[rapid.IntRange(0, len(tailUniverse)-1).Draw(t, label+".tail")]
	return ForgeAddr(p, mid, tail)
}

// GenData draws chunk content (never empty: NBS cannot store zero-length chunks; the empty
// chunk is its "absent" value). ord is mixed into the content so that distinct chunks of a
// case have distinct bytes (a reader returning the wrong record of a collision run must not
// go unnoticed because two records happen to hold equal bytes).
func GenData(t *rapid.T, label string, ord uint32, near64kLeft, bigLeft *int) ([]byte, string) {
	seed := rapid.Uint64().Draw(t, label+".seed")
	k := rapid.IntRange(0, 99).Draw(t, label+".kind")
	var b []byte
	kind := ""
	switch {
	case k < 6:
		kind = "one"
		return []byte{byte(seed)}, kind
	case k < 40:
		kind = "small"
		b = RandBytes(seed, rapid.IntRange(2, 96).Draw(t, label+".len"))
	case k < 65:
		kind = "comp"
		b = CompBytes(seed, rapid.IntRange(64, 6000).Draw(t, label+".len"))
	case k < 90:
		kind = "rand"
		b = RandBytes(seed, rapid.IntRange(64, 3000).Draw(t, label+".len"))
	case k < 97 || *bigLeft <= 0:
		if *near64kLeft <= 0 {
			kind = "small"
			b = RandBytes(seed, rapid.IntRange(2, 96).Draw(t, label+".len"))
			break
		}
		*near64kLeft--
		kind = "near64k"
		n := rapid.IntRange(65536-12, 65536+12).Draw(t, label+".len")
		if seed&1 == 0 {
			b = RandBytes(seed, n)
		} else {
			b = CompBytes(seed, n)
		}
	default:
		*bigLeft--
		kind = "big"
		n := rapid.IntRange(1<<20, 5<<20-4096).Draw(t, label+".len")
		b = CompBytes(seed, n)
		copy(b[n/2:], RandBytes(seed, 1<<16))
	}
	if len(b) >= 6 {
		binary.BigEndian.PutUint32(b[1:5], ord)
	} else if len(b) >= 2 {
		b[1] = byte(ord)
	}
	return b, kind
}

// Gen draws a whole set.
func Gen(t *rapid.T, label string, o Opts) *Set {
	s := NewSet()
	s.Prefixes = GenPrefixPool(t, label)
	n := rapid.IntRange(o.Min, o.Max).Draw(t, label+".n")
	s.Grow(t, label, n, o)
	return s
}

// Grow adds up to n more chunks drawn with the set's prefix pool; returns the new ones.
func (s *Set) Grow(t *rapid.T, label string, n int, o Opts) []Chunk {
	if o.MaxNear64k == 0 {
		o.MaxNear64k = 2
	}
	near, big := o.MaxNear64k, o.Big
	if len(s.Prefixes) == 0 {
		s.Prefixes = GenPrefixPool(t, label)
	}
	start := len(s.Chunks)
	for i := 0; i < n; i++ {
		l := fmt.Sprintf("%s.c%d", label, len(s.Chunks))
		data, kind := GenData(t, l, s.nextOrd, &near, &big)
		// contents are pairwise distinct within a set: some read paths (archive getMany) identify a
		// chunk by its content hash, and equal bytes under two addresses would hide a wrong-record bug
		if _, dup := s.contents[string(data)]; dup {
			data = binary.BigEndian.AppendUint32(append([]byte{}, data...), 0x80000000|s.nextOrd)
		}
		s.nextOrd++
		c := Chunk{Data: data, Kind: kind}
		if o.WithRefs && len(s.Chunks) > 0 && kind != "big" {
			nrefs := rapid.IntRange(0, 3).Draw(t, l+".nrefs")
			for j := 0; j < nrefs; j++ {
				c.Refs = append(c.Refs, s.Chunks[rapid.IntRange(0, len(s.Chunks)-1).Draw(t, fmt.Sprintf("%s.ref%d", l, j))].Addr)
			}
		}
		if o.WithRefs {
			c.Data = EncodeRefs(c.Refs, c.Data)
		}
		s.contents[string(c.Data)] = struct{}{}
		forged := !o.GenuineOnly && (o.ForgedOnly || rapid.IntRange(0, 9).Draw(t, l+".forged") < 7)
		if forged {
			for try := 0; try < 6; try++ {
				c.Addr = GenForgedAddr(t, fmt.Sprintf("%s.a%d", l, try), s.Prefixes)
				if s.Add(c) {
					break
				}
			}
		} else {
			c.Addr = hash.Of(c.Data)
			c.Genuine = true
			s.Add(c)
		}
	}
	return s.Chunks[start:]
}

// RunLens maps each 8-byte prefix to the number of present addresses sharing it.
func (s *Set) RunLens() map[uint64]int {
	m := map[uint64]int{}
	for _, c := range s.Chunks {
		m[Prefix(c.Addr)]++
	}
	return m
}

// MaxRun is the longest collision run.
func (s *Set) MaxRun() int {
	mx := 0
	for _, n := range s.RunLens() {
		if n > mx {
			mx = n
		}
	}
	return mx
}

// RunLensOf is RunLens over a subset.
func RunLensOf(cs []Chunk) map[uint64]int {
	m := map[uint64]int{}
	for _, c := range cs {
		m[Prefix(c.Addr)]++
	}
	return m
}

// Absents builds absent probes adjacent to present addresses: same prefix / neighbouring or
// different suffix, prefix+-1 with the same suffix, last byte +-1, plus a few unrelated ones.
// present is the address universe that must be avoided (normally s itself). With unique16 the
// probes also avoid the first 16 bytes of every present address. At most max probes, chosen by
// rapid among the candidates around a drawn subset of present addresses.
func (s *Set) Absents(t *rapid.T, label string, max int, unique16 bool) []hash.Hash {
	seen := map[hash.Hash]struct{}{}
	var out []hash.Hash
	add := func(h hash.Hash) {
		if h.IsEmpty() || s.Has(h) {
			return
		}
		if unique16 && s.Shares16(h) {
			return
		}
		if _, ok := seen[h]; ok {
			return
		}
		seen[h] = struct{}{}
		out = append(out, h)
	}
	neighbours := func(h hash.Hash) {
		p, mid, tail := Prefix(h), binary.BigEndian.Uint64(h[8:16]), binary.BigEndian.Uint32(h[16:20])
		add(ForgeAddr(p, mid, tail+1))
		add(ForgeAddr(p, mid, tail-1))
		add(ForgeAddr(p, mid+1, tail))
		add(ForgeAddr(p, mid-1, tail))
		add(ForgeAddr(p, ^mid, ^tail))
		add(ForgeAddr(p+1, mid, tail))
		add(ForgeAddr(p-1, mid, tail))
		g := h
		g[19] ^= 0x80
		add(g)
		g = h
		g[8] ^= 0x01
		add(g)
		g = h
		g[7] ^= 0x01
		add(g)
		g = h
		g[0] ^= 0x80
		add(g)
	}
	if len(s.Chunks) > 0 {
		k := max/8 + 1
		for i := 0; i < k; i++ {
			neighbours(s.Chunks[rapid.IntRange(0, len(s.Chunks)-1).Draw(t, fmt.Sprintf("%s.near%d", label, i))].Addr)
		}
	}
	for _, p := range s.Prefixes {
		add(ForgeAddr(p, 6, 6))
		add(ForgeAddr(p+2, 0, 1))
	}
	for i := 0; i < 3; i++ {
		add(hash.Of([]byte(fmt.Sprintf("absent-%d-%d", i, rapid.IntRange(0, 1<<20).Draw(t, fmt.Sprintf("%s.rnd%d", label, i))))))
	}
	add(ForgeAddr(0, 0, 1))
	add(ForgeAddr(^uint64(0), ^uint64(0), ^uint32(0)))
	if len(out) > max {
		// keep a rapid-chosen window so the shrinker can move it
		off := rapid.IntRange(0, len(out)-max).Draw(t, label+".win")
		out = out[off : off+max]
	}
	return out
}

// AbsentSharingPrefix counts probes whose prefix is a present prefix.
func (s *Set) AbsentSharingPrefix(abs []hash.Hash) int {
	rl := s.RunLens()
	n := 0
	for _, a := range abs {
		if rl[Prefix(a)] > 0 {
			n++
		}
	}
	return n
}

// Describe renders a compact, content-based description (hashed by the evidence recorder).
func (s *Set) Describe() string {
	return DescribeChunks(s.Chunks)
}

func DescribeChunks(cs []Chunk) string {
	var b strings.Builder
	rl := RunLensOf(cs)
	var runs []int
	for _, n := range rl {
		if n > 1 {
			runs = append(runs, n)
		}
	}
	sort.Ints(runs)
	fmt.Fprintf(&b, "n=%d runs=%v [", len(cs), runs)
	for i, c := range cs {
		if i >= 24 {
			fmt.Fprintf(&b, " …")
			break
		}
		if i > 0 {
			b.WriteByte(' ')
		}
		b.WriteString(c.String())
	}
	// a digest of all addresses keeps descriptions of large sets distinct
	var x uint64 = 1469598103934665603
	for _, c := range cs {
		for _, by := range c.Addr {
			x = (x ^ uint64(by)) * 1099511628211
		}
		x = (x ^ uint64(len(c.Data))) * 1099511628211
	}
	fmt.Fprintf(&b, "] #%016x", x)
	return b.String()
}

// SortedAddrs returns the addresses in byte order.
func SortedAddrs(hs []hash.Hash) []hash.Hash {
	out := append([]hash.Hash{}, hs...)
	sort.Slice(out, func(i, j int) bool { return bytes.Compare(out[i][:], out[j][:]) < 0 })
	return out
}

// ---------------------------------------------------------------------------------------
// chunks with synthetic references: "VR" | uvarint n | n x 20-byte address | payload

var refMagic = []byte{'V', 'R'}

// EncodeRefs builds the content of a chunk that references refs.
func EncodeRefs(refs []hash.Hash, payload []byte) []byte {
	b := make([]byte, 0, 2+binary.MaxVarintLen32+20*len(refs)+len(payload))
	b = append(b, refMagic...)
	b = binary.AppendUvarint(b, uint64(len(refs)))
	for _, r := range refs {
		b = append(b, r[:]...)
	}
	return append(b, payload...)
}

// DecodeRefs is the harness' own reference decoder (the inverse of EncodeRefs); content that
// does not carry the marker has no references.
func DecodeRefs(data []byte) []hash.Hash {
	if len(data) < 3 || data[0] != refMagic[0] || data[1] != refMagic[1] {
		return nil
	}
	n, w := binary.Uvarint(data[2:])
	if w <= 0 || n > uint64(len(data))/20 {
		return nil
	}
	off := 2 + w
	if off+int(n)*20 > len(data) {
		return nil
	}
	out := make([]hash.Hash, n)
	for i := range out {
		copy(out[i][:], data[off+i*20:])
	}
	return out
}
