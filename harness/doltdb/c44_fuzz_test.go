package doltdb_test

import (
	"testing"

	"pgregory.net/rapid"

	"github.com/dolthub/dolt/go/zzverif/vh"
)

// FuzzVerifC44Names drives the C44 name property (validators vs. the independent
// implementation of the documented ref-name rules) with Go's coverage-guided fuzzer: the
// fuzzer's bytes are the entropy of the same rapid generator the property test uses, so
// coverage feedback steers the biased name generator toward inputs that reach new branches of
// the validators. Thorough tier only; a crasher is saved under testdata/fuzz by the Go runtime
// and copied to replays/ by the driver.
func FuzzVerifC44Names(f *testing.F) {
	rec := vh.NewRecorder("C44", "fuzz_names", "exploration", "coverage-guided fuzzing of the name property (not written as evidence)")
	f.Add([]byte{0})
	f.Add([]byte("refs/heads/main"))
	f.Add([]byte{0xff, 0x00, 0x7f, 0x2e, 0x2e, 0x40, 0x7b})
	f.Fuzz(rapid.MakeFuzz(func(t *rapid.T) {
		c44OneName(t, rec, c44GenName(t, "name"), false)
	}))
}
