package doltdb_test

// Builds a generated commit DAG through doltdb.DoltDB (CommitValue for roots,
// CommitDanglingWithParentCommits / CommitWithParentCommits for the rest), puts branches and
// tags on drawn commits and can re-open the database (new view of the same in-memory storage,
// or a fresh LoadDoltDB of the same directory for file-backed cases).

import (
	"context"
	"fmt"
	"os"
	"sort"
	"time"

	"pgregory.net/rapid"

	"github.com/dolthub/dolt/go/libraries/doltcore/dbfactory"
	"github.com/dolthub/dolt/go/libraries/doltcore/doltdb"
	"github.com/dolthub/dolt/go/libraries/doltcore/ref"
	"github.com/dolthub/dolt/go/libraries/utils/filesys"
	"github.com/dolthub/dolt/go/store/chunks"
	"github.com/dolthub/dolt/go/store/datas"
	"github.com/dolthub/dolt/go/store/hash"
	"github.com/dolthub/dolt/go/store/types"
	"github.com/dolthub/dolt/go/zzverif/vh"
)

type verifRepo struct {
	storage  *chunks.TestStorage // in-memory backing (nil for file-backed)
	dir      string              // file-backed location ("" for in-memory)
	cleanup  func()
	ddb      *doltdb.DoltDB
	addrs    []hash.Hash
	rootVal  types.Value
	valHash  hash.Hash
	branches map[string]int // branch name -> commit index it points at
	tags     map[string]int
	reopens  int
	// dangling commits not yet reachable from any ref: they sit in the write buffer and are
	// only persisted by the next ref update, so a ref is put on each before a re-open (as the
	// callers of CommitDangling do)
	unreferenced []int
}

func verifMeta(i int) *datas.CommitMeta {
	d := datas.CommitDateAt(time.UnixMilli(int64(1000 * (i + 1))))
	return &datas.CommitMeta{
		Author:      datas.CommitIdent{Name: "verif", Email: "verif@example.com", Date: d},
		Committer:   datas.CommitIdent{Name: "verif", Email: "verif@example.com", Date: d},
		Description: fmt.Sprintf("commit %d", i),
	}
}

func (r *verifRepo) open(t *rapid.T, ctx context.Context) {
	var err error
	if r.dir != "" {
		// no singleton cache: every open constructs a fresh store over the directory (a real
		// re-open); chunk journal as for a local dolt database
		r.ddb, err = doltdb.LoadDoltDBWithParams(ctx, types.Format_DOLT, "file://"+r.dir, filesys.LocalFS, map[string]interface{}{
			dbfactory.DisableSingletonCacheParam: struct{}{},
			dbfactory.ChunkJournalParam:          struct{}{},
		})
	} else {
		r.ddb, err = doltdb.DoltDBFromCS(r.storage.NewViewWithDefaultFormat(), "verif")
	}
	if err != nil {
		t.Fatalf("open database: %v", err)
	}
}

func (r *verifRepo) reopen(t *rapid.T, ctx context.Context) {
	for _, i := range r.unreferenced {
		name := fmt.Sprintf("keep/c%d", i)
		if err := r.ddb.SetHead(ctx, ref.NewBranchRef(name), r.addrs[i]); err != nil {
			t.Fatalf("SetHead(%s, commit %d): %v", name, i, err)
		}
		r.branches[name] = i
	}
	r.unreferenced = nil
	if r.dir != "" {
		if err := r.ddb.Close(); err != nil {
			t.Fatalf("close database: %v", err)
		}
	}
	r.open(t, ctx)
	r.reopens++
}

func (r *verifRepo) close() {
	if r.ddb != nil {
		_ = r.ddb.Close()
	}
	if r.cleanup != nil {
		r.cleanup()
	}
}

func (r *verifRepo) commit(t *rapid.T, ctx context.Context, i int) *doltdb.Commit {
	oc, err := r.ddb.ReadCommit(ctx, r.addrs[i])
	if err != nil {
		t.Fatalf("ReadCommit(commit %d = %s): %v", i, r.addrs[i], err)
	}
	c, ok := oc.ToCommit()
	if !ok {
		t.Fatalf("ReadCommit(commit %d) returned a ghost", i)
	}
	return c
}

// verifNewRepo creates the storage and the root value every commit uses (commits differ by
// their metadata and parents).
func verifNewRepo(t *rapid.T, ctx context.Context, fileBacked bool) *verifRepo {
	r := &verifRepo{branches: map[string]int{}, tags: map[string]int{}}
	if fileBacked {
		dir, cleanup := vh.ScratchDir(t, "c18repo")
		if err := os.MkdirAll(dir, 0o755); err != nil {
			vh.Inconclusive(t, "mkdir: %v", err)
		}
		r.dir, r.cleanup = dir, cleanup
	} else {
		r.storage = &chunks.TestStorage{}
	}
	r.open(t, ctx)
	rv, err := doltdb.EmptyRootValue(ctx, r.ddb.ValueReadWriter(), r.ddb.NodeStore())
	if err != nil {
		t.Fatalf("EmptyRootValue: %v", err)
	}
	rv, r.valHash, err = r.ddb.WriteRootValue(ctx, rv)
	if err != nil {
		t.Fatalf("WriteRootValue: %v", err)
	}
	r.rootVal = rv.NomsValue()
	return r
}

// verifBuildRepo creates every commit of d. d.how records the path per commit.
func verifBuildRepo(t *rapid.T, ctx context.Context, d *verifDag, fileBacked bool) *verifRepo {
	r := verifNewRepo(t, ctx, fileBacked)
	d.how = make([]string, d.n())
	for i := range d.parents {
		if i > 0 && rapid.IntRange(0, 11).Draw(t, fmt.Sprintf("c%d.reopen", i)) == 0 {
			r.reopen(t, ctx)
			d.how[i] += "R"
		}
		ps := d.parents[i]
		var cm *doltdb.Commit
		var err error
		switch {
		case len(ps) == 0:
			// a root: first commit of a fresh branch
			name := "main"
			if i > 0 {
				name = fmt.Sprintf("root%d", i)
			}
			d.how[i] += "v"
			cm, err = r.ddb.CommitValue(ctx, ref.NewBranchRef(name), r.rootVal, datas.CommitOptions{Meta: verifMeta(i)})
			if err == nil {
				r.branches[name] = i
			}
		default:
			pcs := make([]*doltdb.Commit, len(ps))
			for k, p := range ps {
				pcs[k] = r.commit(t, ctx, p)
			}
			// a branch whose head is the first parent and is named nowhere else in the list:
			// CommitWithParentCommits then stores exactly the requested parent list
			onto := ""
			names := make([]string, 0, len(r.branches))
			for name := range r.branches {
				names = append(names, name)
			}
			sort.Strings(names)
			for _, name := range names {
				if r.branches[name] == ps[0] {
					onto = name
				}
			}
			for _, p := range ps[1:] {
				if p == ps[0] {
					onto = ""
				}
			}
			if onto != "" && rapid.Bool().Draw(t, fmt.Sprintf("c%d.ontoBranch", i)) {
				d.how[i] += "p"
				cm, err = r.ddb.CommitWithParentCommits(ctx, r.valHash, ref.NewBranchRef(onto), pcs[1:], verifMeta(i))
				if err == nil {
					r.branches[onto] = i
				}
			} else {
				d.how[i] += "d"
				cm, err = r.ddb.CommitDanglingWithParentCommits(ctx, r.valHash, pcs, verifMeta(i))
			}
		}
		if err != nil {
			t.Fatalf("creating commit %d parents %v (%s): %v", i, ps, d.how[i], err)
		}
		addr, _ := cm.HashOf()
		for j, a := range r.addrs {
			if a == addr {
				t.Fatalf("commit %d got the address of commit %d (%s) although its inputs differ", i, j, addr)
			}
		}
		r.addrs = append(r.addrs, addr)
		if d.how[i][len(d.how[i])-1] == 'd' {
			r.unreferenced = append(r.unreferenced, i)
		}
	}
	return r
}

// putRefs points branches b<i> and tags t<i> at drawn commits (besides the branches the
// builder advanced).
func (r *verifRepo) putRefs(t *rapid.T, ctx context.Context, d *verifDag) {
	nb := rapid.IntRange(1, 3).Draw(t, "nBranches")
	for k := 0; k < nb; k++ {
		i := rapid.IntRange(0, d.n()-1).Draw(t, fmt.Sprintf("branch%d.at", k))
		name := fmt.Sprintf("feature/b%d", k)
		if err := r.ddb.NewBranchAtCommit(ctx, ref.NewBranchRef(name), r.commit(t, ctx, i), nil); err != nil {
			t.Fatalf("NewBranchAtCommit(%s at commit %d): %v", name, i, err)
		}
		r.branches[name] = i
	}
	nt := rapid.IntRange(0, 2).Draw(t, "nTags")
	for k := 0; k < nt; k++ {
		i := rapid.IntRange(0, d.n()-1).Draw(t, fmt.Sprintf("tag%d.at", k))
		name := fmt.Sprintf("v1.%d", k)
		meta := &datas.TagMeta{Name: "verif", Email: "verif@example.com", Timestamp: 1000, Description: "tag"}
		if err := r.ddb.NewTagAtCommit(ctx, ref.NewTagRef(name), r.commit(t, ctx, i), meta); err != nil {
			t.Fatalf("NewTagAtCommit(%s at commit %d): %v", name, i, err)
		}
		r.tags[name] = i
	}
}

func verifMaxCommits() int { return vh.N(12, 40) }
