package doltdb_test

// C44 - names and revision specs parse as documented.
//
// (1) names: strings biased to the ref-name rules are given to ref.IsValidBranchName,
// ref.IsValidTagName, doltdb.IsValidUserBranchName, doltdb.IsValidTagRef and
// datas.ValidateDatasetId and compared with an independent, table-free implementation of the
// documented rules; accepted names are additionally created as a branch / tag in a small
// repository, read back verbatim, resolved as a commit spec and deleted.
// (2) specs: base + ancestor suffix strings (well-formed and malformed) go through
// NewCommitSpec+Resolve and are compared with: base resolved on its own, then the parent walk
// given by an independent parse of the suffix.

import (
	"context"
	"fmt"
	"strconv"
	"strings"
	"testing"

	"pgregory.net/rapid"

	"github.com/dolthub/dolt/go/libraries/doltcore/doltdb"
	"github.com/dolthub/dolt/go/libraries/doltcore/ref"
	"github.com/dolthub/dolt/go/store/chunks"
	"github.com/dolthub/dolt/go/store/datas"
	"github.com/dolthub/dolt/go/zzverif/vh"
)

const c44NamesRule = "strings of 0-5 '/'-joined components (alnum words, '', '.', '..', '.x', 'x.', 'x.lock', 'x.lockx', '.lock', '@', '@{', '@{x}', '-', 'HEAD', 'head', 32/31/33 characters of the hash alphabet, 32 with a letter outside it) with optional leading/trailing/doubled slashes, or a valid multi-component name with 0-2 injected forbidden constructs (control bytes 0x00-0x1f, 0x7f, space, one of ~^:?*[\\, non-ASCII, invalid UTF-8, '..', '@{', '.lock' component end, leading '.', empty component); every validator's verdict == the independent rule implementation's; names accepted by IsValidUserBranchName / IsValidTagRef are created with NewBranchAtCommit / NewTagAtCommit (tags: creation succeeds <=> the dataset-id rules also accept 'refs/tags/<name>'), found verbatim in GetBranches/GetTags, resolved through NewCommitSpec+Resolve to the commit, deleted. Non-trivial: >= 2 components and exactly one violated rule; distinct by the string."

const c44SpecsRule = "on a generated commit DAG with branches and tags: spec = base (existing branch / qualified ref / tag / full hash / HEAD in any case / unknown name / invalid name) + suffix built from {~, ~n, ^, ^n, n incl. 0, 3, huge, leading zeros} and malformed pieces (~x, ~-1, ^^ runs, stray characters, '+', digits first); NewCommitSpec+Resolve must equal: SplitAncestorSpec's base resolved alone, followed by the parent walk given by the harness' own parse of the suffix (~n = n first-parent steps, ^ = ^1, ^k only for k in {1,2}); a suffix the independent parser rejects, an unknown base or a walk leaving the graph must be an error, never a commit. Non-trivial: well-formed chain mixing ~ and ^ that passes a merge commit; distinct by (dag, refs, spec)."

// ---------------------------------------------------------------------------------------
// independent implementation of the documented rules (no regexp, no lookup table)

type c44Rule string

const (
	c44Empty     c44Rule = "empty"
	c44Head      c44Rule = "HEAD"
	c44Dash      c44Rule = "-"
	c44HashLike  c44Rule = "looks_like_commit_hash"
	c44EmptyComp c44Rule = "empty_component"
	c44At        c44Rule = "single_@"
	c44EndDot    c44Rule = "ends_with_dot"
	c44EndSlash  c44Rule = "ends_with_slash"
	c44NonASCII  c44Rule = "non_ascii"
	c44Ctrl      c44Rule = "control_char"
	c44Forbidden c44Rule = "forbidden_char"
	c44DotStart  c44Rule = "component_starts_with_dot"
	c44DotDot    c44Rule = ".."
	c44Lock      c44Rule = "component_ends_with_.lock"
	c44AtBrace   c44Rule = "@{"
)

func c44IsHashShaped(s string) bool {
	if len(s) != 32 {
		return false
	}
	for i := 0; i < len(s); i++ {
		c := s[i]
		if !((c >= '0' && c <= '9') || (c >= 'a' && c <= 'v')) {
			return false
		}
	}
	return true
}

// c44Violations lists every documented rule s breaks (all rule families together).
func c44Violations(s string) map[c44Rule]bool {
	v := map[c44Rule]bool{}
	if s == "" {
		v[c44Empty] = true
		return v
	}
	if s == "HEAD" {
		v[c44Head] = true
	}
	if s == "-" {
		v[c44Dash] = true
	}
	if s == "@" {
		v[c44At] = true
	}
	if c44IsHashShaped(s) {
		v[c44HashLike] = true
	}
	if strings.HasSuffix(s, ".") {
		v[c44EndDot] = true
	}
	if strings.HasSuffix(s, "/") {
		v[c44EndSlash] = true
	}
	if strings.Contains(s, "..") {
		v[c44DotDot] = true
	}
	if strings.Contains(s, "@{") {
		v[c44AtBrace] = true
	}
	for i := 0; i < len(s); i++ {
		c := s[i]
		switch {
		case c >= 0x80:
			v[c44NonASCII] = true
		case c < 0x20 || c == 0x7f:
			v[c44Ctrl] = true
		case c == ' ' || c == '~' || c == '^' || c == ':' || c == '?' || c == '*' || c == '[' || c == '\\':
			v[c44Forbidden] = true
		}
	}
	for _, comp := range strings.Split(s, "/") {
		if comp == "" {
			v[c44EmptyComp] = true
			continue
		}
		if comp[0] == '.' {
			v[c44DotStart] = true
		}
		if strings.HasSuffix(comp, ".lock") {
			v[c44Lock] = true
		}
	}
	return v
}

func c44Any(v map[c44Rule]bool, rules ...c44Rule) bool {
	for _, r := range rules {
		if v[r] {
			return true
		}
	}
	return false
}

// rule families, from the doc comments of validateDatasetIdComponent / ValidateDatasetId,
// InvalidBranchNameRegex and InvalidTagNameRegex
var c44DatasetIdRules = []c44Rule{c44Empty, c44At, c44EndDot, c44EndSlash, c44NonASCII, c44Ctrl, c44Forbidden, c44DotStart, c44DotDot, c44Lock, c44AtBrace}
var c44BranchOnlyRules = []c44Rule{c44Empty, c44Head, c44Dash, c44HashLike, c44EmptyComp}
var c44TagRules = []c44Rule{c44Empty, c44Head, c44Dash, c44HashLike, c44EmptyComp, c44Ctrl, c44Forbidden, c44DotDot, c44Lock, c44AtBrace}

func c44DatasetIdOK(s string) bool { return !c44Any(c44Violations(s), c44DatasetIdRules...) }
func c44BranchOK(s string) bool {
	v := c44Violations(s)
	return !c44Any(v, c44BranchOnlyRules...) && !c44Any(v, c44DatasetIdRules...)
}
func c44TagOK(s string) bool { return !c44Any(c44Violations(s), c44TagRules...) }

// ---------------------------------------------------------------------------------------
// generators

var c44Words = []string{"a", "b", "main", "feature", "v1", "x9", "Rel", "fix-1", "a_b", "1.2", "x.y", "lockx", "a.lock.b", "x{", "@x", "x@"}
var c44Odd = []string{"", ".", "..", ".x", "x.", "x.lock", "x.lockx", ".lock", "x.LOCK", "@", "@{", "@{x}", "x@{y}", "-", "-x", "HEAD", "head", "Head", "a..b", "...",
	"0123456789abcdefghijklmnopqrstuv", "0123456789abcdefghijklmnopqrstu", "0123456789abcdefghijklmnopqrstuv0", "0123456789abcdefghijklmnopqrstuw", "0123456789ABCDEFGHIJKLMNOPQRSTUV"}
var c44BadChars = []string{"\x00", "\x01", "\t", "\n", "\r", "\x1f", "\x7f", " ", "~", "^", ":", "?", "*", "[", "\\", "é", "\xff", "☃"}
var c44OkChars = []string{"]", "{", "}", "|", "!", "\"", "#", "$", "%", "&", "'", "(", ")", "+", ",", ";", "<", "=", ">", "_", "`", "@", "-", "."}

func c44GenName(t *rapid.T, label string) string {
	mode := rapid.IntRange(0, 9).Draw(t, label+".mode")
	if mode < 6 {
		// a valid multi-component name with 0-2 injected forbidden constructs
		n := rapid.IntRange(1, 4).Draw(t, label+".ncomp")
		comps := make([]string, n)
		for i := range comps {
			comps[i] = rapid.SampledFrom(c44Words[:10]).Draw(t, fmt.Sprintf("%s.w%d", label, i))
		}
		k := rapid.IntRange(0, 2).Draw(t, label+".nmut")
		for m := 0; m < k; m++ {
			ci := rapid.IntRange(0, n-1).Draw(t, fmt.Sprintf("%s.mut%d.comp", label, m))
			c := comps[ci]
			pos := rapid.IntRange(0, len(c)).Draw(t, fmt.Sprintf("%s.mut%d.pos", label, m))
			switch rapid.IntRange(0, 8).Draw(t, fmt.Sprintf("%s.mut%d.kind", label, m)) {
			case 0, 1:
				c = c[:pos] + rapid.SampledFrom(c44BadChars).Draw(t, fmt.Sprintf("%s.mut%d.ch", label, m)) + c[pos:]
			case 2:
				c = c[:pos] + ".." + c[pos:]
			case 3:
				c = c[:pos] + "@{" + c[pos:]
			case 4:
				c = c + ".lock"
			case 5:
				c = "." + c
			case 6:
				c = "" // empty component
			case 7:
				c = c + "."
			default:
				c = c[:pos] + rapid.SampledFrom(c44OkChars).Draw(t, fmt.Sprintf("%s.mut%d.ok", label, m)) + c[pos:]
			}
			comps[ci] = c
		}
		return strings.Join(comps, "/")
	}
	n := rapid.IntRange(0, 5).Draw(t, label+".ncomp")
	comps := make([]string, n)
	for i := range comps {
		if rapid.IntRange(0, 2).Draw(t, fmt.Sprintf("%s.odd%d", label, i)) == 0 {
			comps[i] = rapid.SampledFrom(c44Words).Draw(t, fmt.Sprintf("%s.w%d", label, i))
		} else {
			comps[i] = rapid.SampledFrom(c44Odd).Draw(t, fmt.Sprintf("%s.o%d", label, i))
		}
	}
	s := strings.Join(comps, "/")
	switch rapid.IntRange(0, 9).Draw(t, label+".slashes") {
	case 0:
		s = "/" + s
	case 1:
		s = s + "/"
	case 2:
		s = strings.Replace(s, "/", "//", 1)
	}
	if mode == 9 && len(s) > 0 {
		pos := rapid.IntRange(0, len(s)).Draw(t, label+".inj.pos")
		s = s[:pos] + rapid.SampledFrom(append(append([]string{}, c44BadChars...), c44OkChars...)).Draw(t, label+".inj.ch") + s[pos:]
	}
	if len(s) > 60 {
		s = s[:60]
	}
	return s
}

// ---------------------------------------------------------------------------------------
// (1) names

type c44Repo struct {
	ddb    *doltdb.DoltDB
	commit *doltdb.Commit
}

func c44NewRepo(t *rapid.T, ctx context.Context) *c44Repo {
	st := &chunks.TestStorage{}
	ddb, err := doltdb.DoltDBFromCS(st.NewViewWithDefaultFormat(), "verif")
	if err != nil {
		t.Fatalf("DoltDBFromCS: %v", err)
	}
	rv, err := doltdb.EmptyRootValue(ctx, ddb.ValueReadWriter(), ddb.NodeStore())
	if err != nil {
		t.Fatalf("EmptyRootValue: %v", err)
	}
	rv, _, err = ddb.WriteRootValue(ctx, rv)
	if err != nil {
		t.Fatalf("WriteRootValue: %v", err)
	}
	cm, err := ddb.CommitValue(ctx, ref.NewBranchRef("zzbase"), rv.NomsValue(), datas.CommitOptions{Meta: verifMeta(0)})
	if err != nil {
		t.Fatalf("CommitValue: %v", err)
	}
	return &c44Repo{ddb: ddb, commit: cm}
}

func c44ResolvesTo(t *rapid.T, ctx context.Context, r *c44Repo, s string, what string) {
	cs, err := doltdb.NewCommitSpec(s)
	if err != nil {
		t.Fatalf("%s %q was created but NewCommitSpec rejects it: %v", what, s, err)
	}
	oc, err := r.ddb.Resolve(ctx, cs, nil)
	if err != nil {
		t.Fatalf("%s %q was created but does not resolve as a commit spec: %v", what, s, err)
	}
	if want, _ := r.commit.HashOf(); oc.Addr != want {
		t.Fatalf("%s %q resolves to %s, it was created at %s", what, s, oc.Addr, want)
	}
}

func c44BranchEndToEnd(t *rapid.T, ctx context.Context, s string) (classes []string) {
	r := c44NewRepo(t, ctx)
	defer r.ddb.Close()
	br := ref.NewBranchRef(s)
	if br.GetPath() != s {
		t.Fatalf("NewBranchRef(%q).GetPath() = %q", s, br.GetPath())
	}
	if err := r.ddb.NewBranchAtCommit(ctx, br, r.commit, nil); err != nil {
		t.Fatalf("branch name %q passes IsValidUserBranchName but NewBranchAtCommit fails: %v", s, err)
	}
	bs, err := r.ddb.GetBranches(ctx)
	if err != nil {
		t.Fatalf("GetBranches: %v", err)
	}
	found := false
	for _, b := range bs {
		if b.GetPath() == s {
			found = true
		}
	}
	if !found {
		t.Fatalf("branch %q was created but GetBranches lists %v", s, bs)
	}
	if has, err := r.ddb.HasRef(ctx, br); err != nil || !has {
		t.Fatalf("HasRef(branch %q) = %v,%v", s, has, err)
	}
	if strings.EqualFold(s, "head") {
		// "Head", "hEAD" ... are documented as valid branch names, but a commit spec spelled
		// like that names HEAD (NewCommitSpec folds case); not resolvable by name
		classes = append(classes, "branch_named_like_head_not_resolved")
	} else {
		c44ResolvesTo(t, ctx, r, s, "branch")
		c44ResolvesTo(t, ctx, r, "refs/heads/"+s, "branch (qualified)")
	}
	if err := r.ddb.DeleteBranch(ctx, br, nil); err != nil {
		t.Fatalf("DeleteBranch(%q): %v", s, err)
	}
	if has, err := r.ddb.HasRef(ctx, br); err != nil || has {
		t.Fatalf("after DeleteBranch(%q): HasRef = %v,%v", s, has, err)
	}
	return append(classes, "e2e_branch_created")
}

func c44TagEndToEnd(t *rapid.T, ctx context.Context, s string) (classes []string) {
	r := c44NewRepo(t, ctx)
	defer r.ddb.Close()
	tr := ref.NewTagRef(s)
	if tr.GetPath() != s {
		t.Fatalf("NewTagRef(%q).GetPath() = %q", s, tr.GetPath())
	}
	meta := &datas.TagMeta{Name: "verif", Email: "verif@example.com", Timestamp: 1000, Description: "tag"}
	err := r.ddb.NewTagAtCommit(ctx, tr, r.commit, meta)
	// the tag rules do not mention non-ASCII, a leading '.', a trailing '.', '@': those are
	// rules of the dataset id the tag is stored under
	storeOK := c44DatasetIdOK("refs/tags/" + s)
	if (err == nil) != storeOK {
		t.Fatalf("tag name %q passes IsValidTagRef; NewTagAtCommit error = %v, but the dataset-id rules say acceptable = %v", s, err, storeOK)
	}
	if err != nil {
		return []string{"e2e_tag_rejected_by_dataset_id"}
	}
	tags, err := r.ddb.GetTags(ctx)
	if err != nil {
		t.Fatalf("GetTags: %v", err)
	}
	found := false
	for _, x := range tags {
		if x.GetPath() == s {
			found = true
		}
	}
	if !found {
		t.Fatalf("tag %q was created but GetTags lists %v", s, tags)
	}
	tg, err := r.ddb.ResolveTag(ctx, tr)
	if err != nil || tg.Name != s {
		t.Fatalf("ResolveTag(%q) = %v,%v", s, tg, err)
	}
	if want, _ := r.commit.HashOf(); func() bool { h, _ := tg.Commit.HashOf(); return h != want }() {
		t.Fatalf("tag %q does not point at the commit it was created at", s)
	}
	switch {
	case strings.EqualFold(s, "head"):
		classes = append(classes, "tag_named_like_head_not_resolved")
	case !c44BranchOK(s):
		// NewCommitSpec documents that a ref base must be a valid *branch* name; the one tag
		// name that can be stored but is no valid branch name is "@" (a single '@' is only
		// forbidden as a whole dataset id). It is reachable by its qualified name.
		classes = append(classes, "tag_not_nameable_by_bare_spec")
		c44ResolvesTo(t, ctx, r, "refs/tags/"+s, "tag (qualified)")
	default:
		c44ResolvesTo(t, ctx, r, s, "tag")
		c44ResolvesTo(t, ctx, r, "refs/tags/"+s, "tag (qualified)")
	}
	if err := r.ddb.DeleteTag(ctx, tr); err != nil {
		t.Fatalf("DeleteTag(%q): %v", s, err)
	}
	if _, err := r.ddb.ResolveTag(ctx, tr); err == nil {
		t.Fatalf("tag %q still resolves after DeleteTag", s)
	}
	return append(classes, "e2e_tag_created")
}

// c44NamesCase: one name goes through the validators and the end-to-end create/read/resolve/
// delete step (a repository per case), seven more through the validators only.
func c44NamesCase(t *rapid.T, rec *vh.Recorder) {
	c44OneName(t, rec, c44GenName(t, "name"), true)
	for k := 0; k < 7; k++ {
		c44OneName(t, rec, c44GenName(t, fmt.Sprintf("extra%d", k)), false)
	}
}

func c44OneName(t *rapid.T, rec *vh.Recorder, s string, endToEnd bool) {
	ctx := context.Background()
	v := c44Violations(s)
	var classes []string

	wantBranch := c44BranchOK(s)
	if got := ref.IsValidBranchName(s); got != wantBranch {
		t.Fatalf("ref.IsValidBranchName(%q) = %v; documented rules broken: %v", s, got, v)
	}
	wantUser := wantBranch && s != "head"
	if got := doltdb.IsValidUserBranchName(s); got != wantUser {
		t.Fatalf("doltdb.IsValidUserBranchName(%q) = %v; documented rules broken: %v", s, got, v)
	}
	wantTag := c44TagOK(s)
	if got := ref.IsValidTagName(s); got != wantTag {
		t.Fatalf("ref.IsValidTagName(%q) = %v; documented tag rules broken: %v", s, got, v)
	}
	if !strings.HasPrefix(s, "refs/") {
		if got := doltdb.IsValidTagRef(ref.NewTagRef(s)); got != (wantTag && s != "head") {
			t.Fatalf("doltdb.IsValidTagRef(tag %q) = %v; documented tag rules broken: %v", s, got, v)
		}
		if got := doltdb.IsValidBranchRef(ref.NewBranchRef(s)); got != wantUser {
			t.Fatalf("doltdb.IsValidBranchRef(branch %q) = %v; documented rules broken: %v", s, got, v)
		}
	}
	// dataset ids: the documented rules say nothing about empty inner components (only a
	// trailing '/'), so strings with one are not compared
	innerEmpty := v[c44EmptyComp] && !(strings.HasSuffix(s, "/") && !strings.HasPrefix(s, "/") && !strings.Contains(s, "//"))
	if s != "" && innerEmpty {
		_ = datas.ValidateDatasetId(s) // must not panic
		classes = append(classes, "dataset_id_unspecified_empty_component")
	} else {
		wantDs := c44DatasetIdOK(s)
		if err := datas.ValidateDatasetId(s); (err == nil) != wantDs {
			t.Fatalf("datas.ValidateDatasetId(%q) = %v; documented rules broken: %v", s, err, v)
		}
	}
	// a commit spec made of just this string: NewCommitSpec accepts <=> HEAD in any case, a hash, or a valid branch name
	// (strings with '~' or '^' are specs with an ancestor suffix, the business of the specs part;
	// they are not parsed here: "x~0123456789" makes parseInstructions append 123 million steps)
	trim := strings.TrimSpace(s)
	if !strings.ContainsAny(trim, "^~") {
		_, csErr := doltdb.NewCommitSpec(s)
		wantSpec := strings.EqualFold(trim, "head") || c44IsHashShaped(trim) || c44BranchOK(trim)
		if (csErr == nil) != wantSpec {
			t.Fatalf("doltdb.NewCommitSpec(%q) error = %v, want accepted = %v (rules broken: %v)", s, csErr, wantSpec, c44Violations(trim))
		}
	}

	if endToEnd && !strings.HasPrefix(s, "refs/") && s != "zzbase" {
		if wantUser {
			classes = append(classes, c44BranchEndToEnd(t, ctx, s)...)
		}
		if wantTag && s != "head" {
			classes = append(classes, c44TagEndToEnd(t, ctx, s)...)
		}
	}

	switch {
	case wantBranch:
		classes = append(classes, "valid_branch_name")
	case len(v) == 1:
		for r := range v {
			classes = append(classes, "only:"+string(r))
		}
	default:
		classes = append(classes, "several_rules_broken")
	}
	if wantTag != wantBranch {
		classes = append(classes, "tag_and_branch_rules_differ")
	}
	ncomp := len(strings.Split(s, "/"))
	rec.Case(strconv.Quote(s), ncomp >= 2 && len(v) == 1, classes...)
}

// ---------------------------------------------------------------------------------------
// (2) specs

// c44ParseSuffix is the independent parser of the documented ancestor-spec grammar:
// a sequence of '~' [digits] (n first-parent steps, default 1) and '^' [digits] (parent number,
// default 1, only 1 or 2). ok=false for anything else.
func c44ParseSuffix(s string) (steps []int, ok bool) {
	i := 0
	for i < len(s) {
		op := s[i]
		if op != '~' && op != '^' {
			return nil, false
		}
		i++
		j := i
		for j < len(s) && s[j] >= '0' && s[j] <= '9' {
			j++
		}
		n := 1
		if j > i {
			if j-i > 9 {
				return nil, false // out of any graph's range (and of int range): must be an error either way
			}
			n, _ = strconv.Atoi(s[i:j])
		}
		i = j
		if op == '~' {
			for k := 0; k < n; k++ {
				steps = append(steps, 0)
			}
		} else {
			if n != 1 && n != 2 {
				return nil, false
			}
			steps = append(steps, n-1)
		}
	}
	return steps, true
}

var c44SuffixPieces = []string{"~", "~", "^", "^", "~1", "~2", "~3", "^1", "^2", "~0", "^0", "^3", "~01", "^02", "~10", "^12"}
var c44BadPieces = []string{"~x", "~-1", "^-1", "x", "+", "~ 1", "^ 2", "^a", "1", "~1x", "^2x", "~99999999999999999999", "^99999999999999999999", "~100000", "!", "@", "~~x", "~\t1"}

func c44GenSuffix(t *rapid.T, label string) string {
	var b strings.Builder
	n := rapid.IntRange(0, 4).Draw(t, label+".len")
	bad := rapid.IntRange(0, 4).Draw(t, label+".malformed") == 0
	badAt := -1
	if bad {
		badAt = rapid.IntRange(0, n).Draw(t, label+".badAt")
	}
	for k := 0; k <= n; k++ {
		if k == badAt {
			b.WriteString(rapid.SampledFrom(c44BadPieces).Draw(t, fmt.Sprintf("%s.bad%d", label, k)))
		}
		if k < n {
			b.WriteString(rapid.SampledFrom(c44SuffixPieces).Draw(t, fmt.Sprintf("%s.p%d", label, k)))
		}
	}
	return b.String()
}

// c44ModelBase says which commit a spec base names, from the documentation of NewCommitSpec
// and of the ref lookup in DoltDB.Resolve: any spelling of HEAD = head of the current branch;
// a 32-character hash = that commit; otherwise a valid branch name looked up as refs/<b>,
// refs/heads/<b>, refs/tags/<b>, refs/remotes/<b> (an exact match first when it starts with
// refs/). -1: names nothing.
func c44ModelBase(base string, fullRefs map[string]int, hashIdx map[string]int, cwbIdx int) int {
	if strings.EqualFold(base, "head") {
		return cwbIdx
	}
	if c44IsHashShaped(base) {
		if i, ok := hashIdx[base]; ok {
			return i
		}
		return -1
	}
	if !c44BranchOK(base) {
		return -1
	}
	cands := []string{"refs/" + base, "refs/heads/" + base, "refs/tags/" + base, "refs/remotes/" + base}
	if strings.HasPrefix(base, "refs/") {
		cands = append([]string{base}, cands...)
	}
	for _, c := range cands {
		if i, ok := fullRefs[c]; ok {
			return i
		}
	}
	return -1
}

func c44SpecsCase(t *rapid.T, rec *vh.Recorder) {
	ctx := context.Background()
	d := verifGenDag(t, vh.N(10, 24))
	r := verifBuildRepo(t, ctx, d, false)
	defer r.close()
	r.putRefs(t, ctx, d)
	h := d.heights()
	_ = h
	idx := map[string]int{}
	for i, a := range r.addrs {
		idx[a.String()] = i
	}
	branches, tags := c19SortedKeys(r.branches), c19SortedKeys(r.tags)
	dagStr := d.String()
	refsStr := fmt.Sprintf("branches %v tags %v", r.branches, r.tags)
	cwbName := branches[rapid.IntRange(0, len(branches)-1).Draw(t, "cwb")]
	cwb := ref.NewBranchRef(cwbName)

	fullRefs := map[string]int{}
	for bn, i := range r.branches {
		fullRefs["refs/heads/"+bn] = i
	}
	for tn, i := range r.tags {
		fullRefs["refs/tags/"+tn] = i
	}
	hashIdx := idx

	nSpecs := rapid.IntRange(15, 40).Draw(t, "nSpecs")
	for k := 0; k < nSpecs; k++ {
		label := fmt.Sprintf("spec%d", k)
		// base and what it names on the model (-1: names nothing / invalid)
		base, baseIdx := "", -1
		switch kind := rapid.IntRange(0, 9).Draw(t, label+".base"); {
		case kind <= 2:
			bn := branches[rapid.IntRange(0, len(branches)-1).Draw(t, label+".branch")]
			base, baseIdx = []string{bn, "heads/" + bn, "refs/heads/" + bn}[kind], r.branches[bn]
		case kind == 3 && len(tags) > 0:
			tn := tags[rapid.IntRange(0, len(tags)-1).Draw(t, label+".tag")]
			base, baseIdx = []string{tn, "tags/" + tn, "refs/tags/" + tn}[rapid.IntRange(0, 2).Draw(t, label+".tagform")], r.tags[tn]
		case kind <= 5:
			baseIdx = rapid.IntRange(0, d.n()-1).Draw(t, label+".commit")
			base = r.addrs[baseIdx].String()
		case kind <= 7:
			base, baseIdx = rapid.SampledFrom([]string{"HEAD", "head", "Head", "hEaD"}).Draw(t, label+".headword"), r.branches[cwbName]
		case kind == 8:
			base = rapid.SampledFrom([]string{"nosuchbranch", "feature/none", "0123456789abcdefghijklmnopqrstuv", "refs/heads/none", "v9.9"}).Draw(t, label+".unknown")
		default:
			base = c44GenName(t, label+".name")
			if strings.ContainsAny(base, "~^") || strings.TrimSpace(base) != base {
				base = "a..b" // keep the split point and the trimming unambiguous
			}
			if bi, ok := r.branches[base]; ok {
				baseIdx = bi
			} else if ti, ok := r.tags[base]; ok {
				baseIdx = ti
			} else if strings.EqualFold(base, "head") {
				baseIdx = r.branches[cwbName]
			}
		}
		suffix := c44GenSuffix(t, label+".suffix")
		text := base + suffix
		if strings.TrimSpace(text) != text {
			text = strings.TrimSpace(text) + "~" // specs carry no surrounding whitespace
		}
		// the documented split: the base ends at the first '^' or '~'
		if at := strings.IndexAny(text, "^~"); at >= 0 {
			base, suffix = text[:at], text[at:]
		} else {
			base, suffix = text, ""
		}
		baseIdx = c44ModelBase(base, fullRefs, hashIdx, r.branches[cwbName])

		steps, wellFormed := c44ParseSuffix(suffix)
		want := -1
		if wellFormed && baseIdx >= 0 {
			if w, ok := c19Walk(d, baseIdx, steps); ok {
				want = w
			}
		}

		// the system under test
		var gotAddr string
		cs, err := doltdb.NewCommitSpec(text)
		if err == nil {
			var oc *doltdb.OptionalCommit
			oc, err = r.ddb.Resolve(ctx, cs, cwb)
			if err == nil {
				gotAddr = oc.Addr.String()
			}
		}
		if want >= 0 {
			if err != nil {
				t.Fatalf("spec %q: error %v; base names commit %d and the walk %v ends at commit %d (dag %s; %s; cwb %s)", text, err, baseIdx, steps, want, dagStr, refsStr, cwbName)
			}
			if gotAddr != r.addrs[want].String() {
				t.Fatalf("spec %q resolved to commit %d (%s); base names commit %d and the walk %v ends at commit %d (dag %s; %s; cwb %s)", text, idx[gotAddr], gotAddr, baseIdx, steps, want, dagStr, refsStr, cwbName)
			}
		} else if err == nil {
			t.Fatalf("spec %q (suffix well-formed=%v, base names commit %d) resolved to commit %d (%s) but must be an error (dag %s; %s; cwb %s)", text, wellFormed, baseIdx, idx[gotAddr], gotAddr, dagStr, refsStr, cwbName)
		}

		// differential with the separately parsed base: SplitAncestorSpec + base alone + walk
		name, as, serr := doltdb.SplitAncestorSpec(text)
		if serr == nil {
			if name != base {
				t.Fatalf("SplitAncestorSpec(%q) base = %q, want %q", text, name, base)
			}
			if !wellFormed {
				t.Fatalf("SplitAncestorSpec(%q) accepts suffix %q which the documented grammar does not allow (instructions %v)", text, suffix, as.Instructions)
			}
			if fmt.Sprint(as.Instructions) != fmt.Sprint(append([]int{}, steps...)) {
				t.Fatalf("SplitAncestorSpec(%q) instructions %v, independent parse %v", text, as.Instructions, steps)
			}
			via := -1
			if bcs, berr := doltdb.NewCommitSpec(name); berr == nil {
				if boc, berr := r.ddb.Resolve(ctx, bcs, cwb); berr == nil {
					if bi, ok := idx[boc.Addr.String()]; ok {
						if w, ok := c19Walk(d, bi, as.Instructions); ok {
							via = w
						}
					}
				}
			}
			if (via >= 0) != (err == nil) || (via >= 0 && r.addrs[via].String() != gotAddr) {
				t.Fatalf("spec %q resolves to %q (err %v) but its base %q resolved alone followed by the walk %v gives commit %d (dag %s; %s)", text, gotAddr, err, name, as.Instructions, via, dagStr, refsStr)
			}
		} else if wellFormed {
			t.Fatalf("SplitAncestorSpec(%q): %v, but suffix %q is well-formed (steps %v)", text, serr, suffix, steps)
		}

		tilde, caret := strings.Contains(suffix, "~"), strings.Contains(suffix, "^")
		merges := false
		if want >= 0 {
			i := baseIdx
			for _, s := range steps {
				if len(d.parents[i]) >= 2 {
					merges = true
				}
				i = d.parents[i][s]
			}
		}
		cl := "spec:error_expected"
		switch {
		case want >= 0:
			cl = "spec:resolves"
		case !wellFormed:
			cl = "spec:malformed_suffix"
		case baseIdx < 0:
			cl = "spec:unknown_or_invalid_base"
		default:
			cl = "spec:walk_leaves_graph"
		}
		rec.Case(fmt.Sprintf("%s | %s | cwb %s | %s", dagStr, refsStr, cwbName, strconv.Quote(text)), want >= 0 && tilde && caret && merges, cl)
	}
}

func TestVerif_C44(t *testing.T) {
	recNames := vh.NewRecorder("C44", "names", "exploration", c44NamesRule,
		"rule families are taken from the doc comments: validateDatasetIdComponent/ValidateDatasetId (dataset ids), InvalidBranchNameRegex (branch = those + not empty/HEAD/-/hash-shaped/no empty component), InvalidTagNameRegex (tags; it does not list non-ASCII, leading '.', trailing '.', '@': these are enforced when the tag's dataset id is created, which the end-to-end step checks)",
		"datas.ValidateDatasetId is not compared on strings with an empty leading/inner component: its documentation only forbids a trailing '/'",
		"names that case-fold to 'head' other than 'HEAD'/'head' (e.g. 'Head') are documented as valid; they are created and listed, but not resolved by name because NewCommitSpec reads any spelling of head as HEAD",
		"names starting with 'refs/' are not given to the ref constructors (NewBranchRef/NewTagRef strip or reject ref prefixes)")
	recSpecs := vh.NewRecorder("C44", "specs", "exploration", c44SpecsRule,
		"'^k' is accepted only for k in {1,2} (isValidMergeSpec); '~0' is the commit itself; a number of more than 9 digits is treated as malformed/out of range (an error either way)",
		"specs carry no surrounding whitespace (NewCommitSpec trims, SplitAncestorSpec alone does not)")
	defer recNames.Write(t)
	defer recSpecs.Write(t)
	vh.Check(t, "names", 8000, 6000, func(rt *rapid.T) { c44NamesCase(rt, recNames) })
	vh.Check(t, "specs", 600, 400, func(rt *rapid.T) { c44SpecsCase(rt, recSpecs) })
}
