package doltdb_test

// Commit-DAG kit of the `doltdb` engine (C18 / C19 / C44): the same rapid generator of DAG
// shapes and adjacency-list model as harness/datas/verifdag_test.go (kept textually in sync;
// the two engines are separate test binaries and vh must not import dolt packages), and a
// builder that creates the commits through doltdb.DoltDB.

import (
	"fmt"
	"math/bits"
	"strings"

	"pgregory.net/rapid"
)

// verifDag is the model: parents[i] lists the parent indices (< i) of commit i in order,
// duplicates allowed.
type verifDag struct {
	parents [][]int
	how     []string // construction path per commit (filled by the builder)
}

func (d *verifDag) n() int { return len(d.parents) }

func (d *verifDag) String() string {
	var b strings.Builder
	for i, ps := range d.parents {
		if i > 0 {
			b.WriteByte(' ')
		}
		fmt.Fprintf(&b, "%d<-%v", i, ps)
		if i < len(d.how) && d.how[i] != "" {
			b.WriteString(d.how[i])
		}
	}
	return b.String()
}

// heights: 1 for a root, else 1 + max over parents.
func (d *verifDag) heights() []uint64 {
	h := make([]uint64, d.n())
	for i, ps := range d.parents {
		var m uint64
		for _, p := range ps {
			if h[p] > m {
				m = h[p]
			}
		}
		h[i] = m + 1
	}
	return h
}

// ancestors: bit j of anc[i] is set iff j is a proper ancestor of i (n <= 64).
func (d *verifDag) ancestors() []uint64 {
	anc := make([]uint64, d.n())
	for i, ps := range d.parents {
		for _, p := range ps {
			anc[i] |= anc[p] | (1 << uint(p))
		}
	}
	return anc
}

// maxCommon returns the set (bitmask) of common ancestors-or-self of a and b that have the
// greatest height, and the full common set.
func verifMaxCommon(anc []uint64, h []uint64, a, b int) (best uint64, all uint64) {
	all = (anc[a] | 1<<uint(a)) & (anc[b] | 1<<uint(b))
	var mh uint64
	for m := all; m != 0; m &= m - 1 {
		j := bits.TrailingZeros64(m)
		if h[j] > mh {
			mh = h[j]
		}
	}
	for m := all; m != 0; m &= m - 1 {
		j := bits.TrailingZeros64(m)
		if h[j] == mh {
			best |= 1 << uint(j)
		}
	}
	return best, all
}

func verifBitsList(m uint64) []int {
	var out []int
	for ; m != 0; m &= m - 1 {
		out = append(out, bits.TrailingZeros64(m))
	}
	return out
}

// shape statistics used for the non-triviality rules and the class histogram
type verifDagStats struct {
	mergeOfMerges bool // a commit with >= 2 distinct parents that themselves have >= 2 distinct parents
	crissPairs    int  // unordered pairs with >= 2 maximal-height common ancestors
	noCommonPairs int  // unordered pairs without any common ancestor
	dupParent     bool
	octopus       bool // >= 3 distinct parents
	roots         int
	maxHeight     uint64
}

func verifDistinct(ps []int) int {
	s := map[int]bool{}
	for _, p := range ps {
		s[p] = true
	}
	return len(s)
}

func (d *verifDag) stats() verifDagStats {
	var st verifDagStats
	h, anc := d.heights(), d.ancestors()
	for i, ps := range d.parents {
		if len(ps) == 0 {
			st.roots++
		}
		dp := verifDistinct(ps)
		if dp < len(ps) {
			st.dupParent = true
		}
		if dp >= 3 {
			st.octopus = true
		}
		if dp >= 2 {
			mm := 0
			seen := map[int]bool{}
			for _, p := range ps {
				if !seen[p] && verifDistinct(d.parents[p]) >= 2 {
					mm++
				}
				seen[p] = true
			}
			if mm >= 2 {
				st.mergeOfMerges = true
			}
		}
		if h[i] > st.maxHeight {
			st.maxHeight = h[i]
		}
	}
	for a := 0; a < d.n(); a++ {
		for b := a + 1; b < d.n(); b++ {
			best, all := verifMaxCommon(anc, h, a, b)
			if all == 0 {
				st.noCommonPairs++
			} else if bits.OnesCount64(best) >= 2 {
				st.crissPairs++
			}
		}
	}
	return st
}

func (st verifDagStats) classes() []string {
	var cl []string
	if st.mergeOfMerges {
		cl = append(cl, "merge_of_merges")
	}
	if st.crissPairs > 0 {
		cl = append(cl, "has_criss_cross_pair")
	}
	if st.noCommonPairs > 0 {
		cl = append(cl, "has_unrelated_pair")
	}
	if st.dupParent {
		cl = append(cl, "dup_parent")
	}
	if st.octopus {
		cl = append(cl, "octopus")
	}
	if st.roots > 1 {
		cl = append(cl, "multi_root")
	}
	switch {
	case st.maxHeight >= 8:
		cl = append(cl, "height>=8")
	case st.maxHeight >= 4:
		cl = append(cl, "height4-7")
	default:
		cl = append(cl, "height<=3")
	}
	return cl
}

// verifGenDag draws a DAG shape with up to maxN commits.
func verifGenDag(t *rapid.T, maxN int) *verifDag {
	n := rapid.IntRange(1, maxN).Draw(t, "nCommits")
	if n < maxN/2 && rapid.IntRange(0, 9).Draw(t, "nCommits.big") < 7 {
		n = maxN - n // most cases use the upper half of the size range
	}
	d := &verifDag{}
	pick := func(i int, label string) int {
		// biased to recent commits so that histories get tall
		if i > 3 && rapid.IntRange(0, 9).Draw(t, label+".recent") < 6 {
			return rapid.IntRange(i-3, i-1).Draw(t, label)
		}
		return rapid.IntRange(0, i-1).Draw(t, label)
	}
	var pending []int // second half of a criss-cross: parents for the next commit
	for i := 0; i < n; i++ {
		if i == 0 {
			d.parents = append(d.parents, nil)
			continue
		}
		if pending != nil {
			d.parents = append(d.parents, pending)
			pending = nil
			continue
		}
		shape := rapid.IntRange(0, 99).Draw(t, fmt.Sprintf("c%d.shape", i))
		var ps []int
		// rapid's integer draws favour small values: the interesting shapes come first
		switch {
		case shape < 25: // criss-cross: this commit merges (a,b), the next one (b,a)
			a, b := pick(i, fmt.Sprintf("c%d.a", i)), pick(i, fmt.Sprintf("c%d.b", i))
			if a == b && i >= 2 {
				b = (a + 1) % i
			}
			ps = []int{a, b}
			if a != b {
				pending = []int{b, a}
			}
		case shape < 50:
			ps = []int{pick(i, fmt.Sprintf("c%d.p0", i)), pick(i, fmt.Sprintf("c%d.p1", i))}
		case shape < 82:
			ps = []int{pick(i, fmt.Sprintf("c%d.p0", i))}
		case shape < 89:
			ps = []int{pick(i, fmt.Sprintf("c%d.p0", i)), pick(i, fmt.Sprintf("c%d.p1", i)), pick(i, fmt.Sprintf("c%d.p2", i))}
		case shape < 94: // the same parent twice
			p := pick(i, fmt.Sprintf("c%d.p0", i))
			ps = []int{p, p}
		default: // another root
		}
		if shape < 50 && len(ps) == 2 && ps[0] == ps[1] {
			// the two-parent shapes ask for distinct parents (the same parent twice is its own shape)
			if i >= 2 {
				ps[1] = (ps[0] + 1) % i
			} else {
				ps = ps[:1]
			}
		}
		d.parents = append(d.parents, ps)
	}
	return d
}

