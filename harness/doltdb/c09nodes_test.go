package doltdb_test

// C09, populated nodes - the reference walker reports every address a prolly-map node (and a
// Table message with its inline primary-index root) can dereference.
//
// Row maps are built, through the real tuple builder / chunker / Table constructor, over
// generated value descriptors that mix plain columns with EVERY address-bearing encoding Dolt's
// own SQL types use (BytesAddr, StringAddr, JSONAddr, GeomAddr, CommitAddr and the Bytes /
// String / Json / Geom / Extended adaptive encodings with values on both sides of the inline
// threshold), alone and in combination. Then, on the raw chunks:
//   (i)   per node: the addresses embedded in the stored tuples (decoded with the descriptor:
//         address encodings directly, adaptive encodings when out-of-band) and the child
//         addresses of internal nodes must be exactly what the walker reports for that chunk;
//         the same for the Table chunk that embeds the root node;
//   (ii)  byte scan: every planted address occurring in a node's bytes is reported;
//   (iii) report vs use: exactly the walker-reported closure of the store root is copied into a
//         fresh store, node caches are purged, and every row and every out-of-band value is
//         read back from the copy and compared with what was written.

import (
	"bytes"
	"context"
	"fmt"
	"io"
	"sort"
	"strings"
	"testing"

	"pgregory.net/rapid"

	"github.com/dolthub/dolt/go/gen/fb/serial"
	"github.com/dolthub/dolt/go/libraries/doltcore/doltdb"
	"github.com/dolthub/dolt/go/libraries/doltcore/doltdb/durable"
	"github.com/dolthub/dolt/go/libraries/doltcore/ref"
	"github.com/dolthub/dolt/go/store/chunks"
	"github.com/dolthub/dolt/go/store/datas"
	"github.com/dolthub/dolt/go/store/hash"
	"github.com/dolthub/dolt/go/store/prolly"
	"github.com/dolthub/dolt/go/store/prolly/tree"
	"github.com/dolthub/dolt/go/store/types"
	"github.com/dolthub/dolt/go/store/val"
	"github.com/dolthub/dolt/go/zzverif/vh"
)

const c09NodesRule = "1-2 row maps per case (key: int64; value descriptor of 1-4 nullable columns drawn from {int64, inline string, BytesAddr, StringAddr, JSONAddr, GeomAddr, CommitAddr, BytesAdaptive, StringAdaptive, JsonAdaptive, GeomAdaptive, ExtendedAdaptive}, biased so that a single address-bearing column alone is common), 1-8 rows or (1 case in 6) 150-450 rows so that the tree has internal nodes; per cell NULL / small (0-60 B) / medium (300-1200 B, several of them push a row over the 2048-byte inline target) / large (2100-9000 B, multi-chunk blob trees), contents unique per cell; built with val.TupleBuilder + prolly.NewMapFromTuples, wrapped in a doltdb Table (inline primary index) in a root value committed to main. Oracle: (i) per node and for the Table chunk, the addresses embedded in the stored tuples (decoded with the descriptor) and child addresses == the addresses types.WalkAddrsForNBF reports for that chunk; (ii) every planted address occurring in a node's bytes is reported; (iii) the walker-reported closure of the store root, copied into a fresh store with node caches purged, must return every row and every out-of-band value byte-identical. Non-trivial: the case stores >= 1 out-of-band / address value; distinct by (descriptors, row sizes)."

type c09Col struct {
	enc  val.Encoding
	name string
}

var c09PlainCols = []c09Col{{val.Int64Enc, "int64"}, {val.StringEnc, "string"}}
var c09AddrCols = []c09Col{
	{val.BytesAddrEnc, "BytesAddr"}, {val.StringAddrEnc, "StringAddr"}, {val.JSONAddrEnc, "JSONAddr"}, {val.GeomAddrEnc, "GeomAddr"}, {val.CommitAddrEnc, "CommitAddr"},
	{val.BytesAdaptiveEnc, "BytesAdaptive"}, {val.StringAdaptiveEnc, "StringAdaptive"}, {val.JsonAdaptiveEnc, "JsonAdaptive"}, {val.GeomAdaptiveEnc, "GeomAdaptive"}, {val.ExtendedAdaptiveEnc, "ExtendedAdaptive"},
}

func c09IsAdaptive(e val.Encoding) bool {
	switch e {
	case val.BytesAdaptiveEnc, val.StringAdaptiveEnc, val.JsonAdaptiveEnc, val.GeomAdaptiveEnc, val.ExtendedAdaptiveEnc:
		return true
	}
	return false
}

func c09IsAddr(e val.Encoding) bool {
	switch e {
	case val.BytesAddrEnc, val.StringAddrEnc, val.JSONAddrEnc, val.GeomAddrEnc, val.CommitAddrEnc:
		return true
	}
	return false
}

// c09Payload makes size bytes that no other cell of the case shares (content addressing would
// otherwise keep a chunk alive through another cell).
func c09Payload(tag string, size int) []byte {
	out := make([]byte, 0, size+len(tag)+1)
	out = append(out, tag...)
	out = append(out, '|')
	var x uint32 = 2166136261
	for i := 0; i < len(tag); i++ {
		x = (x ^ uint32(tag[i])) * 16777619
	}
	for len(out) < size {
		x = x*1664525 + 1013904223
		out = append(out, byte('a'+(x>>24)%26))
	}
	return out[:max(size, 0)]
}

// c09BytesHandler is a pass-through handler for the extended (Doltgres-style) adaptive encoding:
// the serialized form of a value is the value's bytes.
type c09BytesHandler struct{}

func (c09BytesHandler) SerializedCompare(_ context.Context, a, b []byte) (int, error) {
	return bytes.Compare(a, b), nil
}
func (c09BytesHandler) SerializeValue(_ context.Context, v any) ([]byte, error) { return v.([]byte), nil }
func (c09BytesHandler) DeserializeValue(_ context.Context, b []byte) (any, error) { return b, nil }
func (c09BytesHandler) FormatValue(v any) (string, error)                          { return fmt.Sprintf("%x", v), nil }
func (c09BytesHandler) SerializationCompatible(o val.TupleTypeHandler) bool {
	_, ok := o.(c09BytesHandler)
	return ok
}
func (c09BytesHandler) ConvertSerialized(_ context.Context, _ val.TupleTypeHandler, b []byte) ([]byte, error) {
	return b, nil
}

type c09MapSpec struct {
	cols     []c09Col
	nRows    int
	desc     string
	m        prolly.Map
	kd, vd   *val.TupleDesc
	expected map[hash.Hash][]byte // out-of-band / addressed value -> content written
	nAddr    int
	// optional artifact map of the table (conflicts / constraint violations)
	hasArtifacts bool
	artifacts    prolly.ArtifactMap
	artRootish   map[hash.Hash][]byte
}

func c09GenCols(t *rapid.T, label string) []c09Col {
	// 0: one address-bearing column alone; 1: one address-bearing + plain; 2: free mix
	switch rapid.IntRange(0, 2).Draw(t, label+".shape") {
	case 0:
		return []c09Col{rapid.SampledFrom(c09AddrCols).Draw(t, label+".only")}
	case 1:
		cols := []c09Col{rapid.SampledFrom(c09PlainCols).Draw(t, label+".plain"), rapid.SampledFrom(c09AddrCols).Draw(t, label+".addr")}
		if rapid.Bool().Draw(t, label+".addrFirst") {
			cols[0], cols[1] = cols[1], cols[0]
		}
		if rapid.Bool().Draw(t, label+".sameAgain") {
			cols = append(cols, cols[len(cols)-1])
		}
		return cols
	default:
		n := rapid.IntRange(2, 4).Draw(t, label+".n")
		all := append(append([]c09Col{}, c09PlainCols...), c09AddrCols...)
		cols := make([]c09Col, n)
		for i := range cols {
			cols[i] = rapid.SampledFrom(all).Draw(t, fmt.Sprintf("%s.c%d", label, i))
		}
		return cols
	}
}

func c09BuildMap(t *rapid.T, ctx context.Context, ns tree.NodeStore, label string, mi int) *c09MapSpec {
	sp := &c09MapSpec{cols: c09GenCols(t, label), expected: map[hash.Hash][]byte{}}
	vts := make([]val.Type, len(sp.cols))
	var names []string
	for i, c := range sp.cols {
		vts[i] = val.Type{Enc: c.enc, Nullable: true}
		names = append(names, c.name)
	}
	sp.kd = val.NewTupleDescriptor(val.Type{Enc: val.Int64Enc})
	handlers := make([]val.TupleTypeHandler, len(vts))
	hasExt := false
	for i, c := range sp.cols {
		if c.enc == val.ExtendedAdaptiveEnc {
			handlers[i], hasExt = val.NewAdaptiveTypeHandler(ns, c09BytesHandler{}), true
		}
	}
	if hasExt {
		sp.vd = val.NewTupleDescriptorWithArgs(val.TupleDescriptorArgs{Handlers: handlers, ValueStore: ns}, vts...)
	} else {
		sp.vd = val.NewTupleDescriptor(vts...)
	}
	big := rapid.IntRange(0, 5).Draw(t, label+".manyRows") == 0
	if big {
		sp.nRows = rapid.IntRange(150, 450).Draw(t, label+".rows")
	} else {
		sp.nRows = rapid.IntRange(1, 8).Draw(t, label+".rows")
	}
	kb, vb := val.NewTupleBuilder(sp.kd, ns), val.NewTupleBuilder(sp.vd, ns)
	tups := make([]val.Tuple, 0, 2*sp.nRows)
	sizeHist := map[string]int{}
	for r := 0; r < sp.nRows; r++ {
		kb.PutInt64(0, int64(r))
		k, err := kb.Build(ctx, ns.Pool())
		if err != nil {
			t.Fatalf("build key: %v", err)
		}
		for ci, c := range sp.cols {
			cell := fmt.Sprintf("%s.r%d.c%d", label, r, ci)
			// size class; rows of a many-row map stay small except for a few cells
			sc := 1
			if !big || r%37 == 5 {
				sc = rapid.IntRange(0, 9).Draw(t, cell+".size")
			} else if r%11 == 3 {
				sc = 0
			}
			var size int
			switch {
			case sc == 0:
				sizeHist["null"]++
				continue // NULL
			case sc <= 3:
				size = rapid.IntRange(0, 60).Draw(t, cell+".small")
				sizeHist["small"]++
			case sc <= 6:
				size = rapid.IntRange(300, 1200).Draw(t, cell+".medium")
				sizeHist["medium"]++
			default:
				size = rapid.IntRange(2100, 9000).Draw(t, cell+".large")
				sizeHist["large"]++
			}
			payload := c09Payload(fmt.Sprintf("m%d.r%d.c%d", mi, r, ci), size)
			var err error
			switch c.enc {
			case val.Int64Enc:
				vb.PutInt64(ci, int64(size))
			case val.StringEnc:
				vb.PutString(ci, string(payload[:min(len(payload), 40)]))
			case val.BytesAdaptiveEnc:
				err = vb.PutAdaptiveBytesFromInline(ctx, ci, payload)
			case val.StringAdaptiveEnc:
				err = vb.PutAdaptiveStringFromInline(ctx, ci, string(payload))
			case val.JsonAdaptiveEnc:
				err = vb.PutAdaptiveJsonFromInline(ctx, ci, payload)
			case val.GeomAdaptiveEnc:
				err = vb.PutAdaptiveGeomFromInline(ctx, ci, payload)
			case val.ExtendedAdaptiveEnc:
				err = vb.PutAdaptiveExtendedFromInline(ctx, ci, payload)
			default: // address encodings: the value lives in a blob tree of its own
				var h hash.Hash
				if len(payload) == 0 {
					payload = c09Payload(fmt.Sprintf("m%d.r%d.c%d", mi, r, ci), 1) // an empty blob has no address
				}
				if h, err = ns.WriteBytes(ctx, payload); err == nil {
					sp.expected[h] = payload
					switch c.enc {
					case val.BytesAddrEnc:
						vb.PutBytesAddr(ci, h)
					case val.StringAddrEnc:
						vb.PutStringAddr(ci, h)
					case val.JSONAddrEnc:
						vb.PutJSONAddr(ci, h)
					case val.GeomAddrEnc:
						vb.PutGeometryAddr(ci, h)
					case val.CommitAddrEnc:
						vb.PutCommitAddr(ci, h)
					}
				}
			}
			if err != nil {
				t.Fatalf("put %s (%d bytes): %v", c.name, size, err)
			}
		}
		v, err := vb.Build(ctx, ns.Pool())
		if err != nil {
			t.Fatalf("build value tuple: %v", err)
		}
		// what did the builder store out of band?
		for ci, c := range sp.cols {
			f := v.GetField(ci)
			if c09IsAdaptive(c.enc) && val.AdaptiveValue(f).IsOutOfBand() {
				a, err := val.AdaptiveValue(f).OutOfBandAddr()
				if err != nil {
					t.Fatalf("OutOfBandAddr: %v", err)
				}
				sp.expected[a] = nil // content checked against the regenerated payload below
				sp.nAddr++
			} else if c09IsAddr(c.enc) && len(f) > 0 {
				sp.nAddr++
			}
		}
		tups = append(tups, k, v)
	}
	m, err := prolly.NewMapFromTuples(ctx, ns, sp.kd, sp.vd, tups...)
	if err != nil {
		t.Fatalf("NewMapFromTuples: %v", err)
	}
	sp.m = m
	sp.desc = fmt.Sprintf("map%d{value=(%s) rows=%d cells null/small/medium/large=%d/%d/%d/%d addressed=%d height=%d}", mi, strings.Join(names, ","), sp.nRows,
		sizeHist["null"], sizeHist["small"], sizeHist["medium"], sizeHist["large"], sp.nAddr, m.Height())
	return sp
}

// c09TupleAddrs decodes the addresses a stored value tuple embeds.
func c09TupleAddrs(t c09TB, vd *val.TupleDesc, tup val.Tuple) []hash.Hash {
	var out []hash.Hash
	for i, typ := range vd.Types {
		f := tup.GetField(i)
		if len(f) == 0 {
			continue
		}
		switch {
		case c09IsAddr(typ.Enc):
			if h := hash.New(f); !h.IsEmpty() {
				out = append(out, h)
			}
		case c09IsAdaptive(typ.Enc):
			if av := val.AdaptiveValue(f); av.IsOutOfBand() {
				h, err := av.OutOfBandAddr()
				if err != nil {
					t.Fatalf("OutOfBandAddr: %v", err)
				}
				out = append(out, h)
			}
		}
	}
	return out
}

func c09WalkChunk(t c09TB, c chunks.Chunk) map[hash.Hash]bool {
	rep := map[hash.Hash]bool{}
	if err := types.WalkAddrsForNBF(types.Format_DOLT, nil)(c, func(a hash.Hash, _ bool) error { rep[a] = true; return nil }); err != nil {
		t.Fatalf("walking %s chunk %s: %v", serial.GetFileID(c.Data()), c.Hash(), err)
	}
	return rep
}

func c09HashList(m map[hash.Hash]bool) string {
	var s []string
	for h := range m {
		s = append(s, h.String())
	}
	sort.Strings(s)
	return strings.Join(s, ",")
}

// c09CheckTree is oracle (i)+(ii) for one tree of tuple nodes (row map or artifact map): kd / vd
// say which tuples carry addresses (nil = none). Returns the addresses embedded in the root node
// (tuple fields and children), which a Table chunk embedding that root must report too.
func c09CheckTree(t *rapid.T, ctx context.Context, raw chunks.ChunkStore, ns tree.NodeStore, root *tree.Node, kd, vd *val.TupleDesc, desc string, planted map[hash.Hash][]byte) (rootEmbedded map[hash.Hash]bool, nodes int) {
	rootHash := root.HashOf()
	err := tree.WalkNodes(ctx, root, ns, func(ctx context.Context, nd *tree.Node) error {
		nodes++
		embedded := map[hash.Hash]bool{}
		if nd.IsLeaf() {
			for i := 0; i < nd.Count(); i++ {
				if vd != nil {
					for _, a := range c09TupleAddrs(t, vd, val.Tuple(nd.GetValue(i))) {
						embedded[a] = true
					}
				}
				if kd != nil {
					for _, a := range c09TupleAddrs(t, kd, val.Tuple(nd.GetKey(i))) {
						embedded[a] = true
					}
				}
			}
		} else {
			for i := 0; i < nd.Count(); i++ {
				embedded[hash.New(nd.GetValue(i))] = true
			}
		}
		h := nd.HashOf()
		if h == rootHash {
			rootEmbedded = embedded
		}
		c, err := raw.Get(ctx, h)
		if err != nil || c.IsEmpty() {
			t.Fatalf("node %s (level %d) is not in the store: %v", h, nd.Level(), err)
		}
		reported := c09WalkChunk(t, c)
		for a := range embedded {
			if !reported[a] {
				t.Fatalf("%s: %s node %s (level %d, %d entries) stores the address %s in a tuple/child slot but the reference walker does not report it for that chunk (reported: %d addresses)", desc, serial.GetFileID(c.Data()), h, nd.Level(), nd.Count(), a, len(reported))
			}
		}
		for a := range reported {
			if !embedded[a] {
				t.Fatalf("%s: the walker reports %s for %s node %s (level %d) but no tuple field / child slot holds that address", desc, a, serial.GetFileID(c.Data()), h, nd.Level())
			}
		}
		// (ii) byte scan for every planted address (leaves only: the boundary keys of an
		// internal node repeat key bytes, addresses included, that the leaves below report)
		for a := range planted {
			if nd.IsLeaf() && bytes.Contains(c.Data(), a[:]) && !reported[a] {
				t.Fatalf("%s: the bytes of node %s contain the planted address %s but the walker does not report it", desc, h, a)
			}
		}
		return nil
	})
	if err != nil {
		t.Fatalf("WalkNodes: %v", err)
	}
	return rootEmbedded, nodes
}

// c09BuildArtifacts adds conflict / constraint-violation artifacts for drawn rows of sp; every
// artifact's source root-ish address points at a blob nothing else references.
func c09BuildArtifacts(t *rapid.T, ctx context.Context, ns tree.NodeStore, sp *c09MapSpec, label string, mi int) {
	am, err := prolly.NewArtifactMapFromTuples(ctx, ns, sp.kd)
	if err != nil {
		t.Fatalf("NewArtifactMapFromTuples: %v", err)
	}
	n := rapid.IntRange(1, 6).Draw(t, label+".artifacts")
	if sp.nRows > 100 && rapid.Bool().Draw(t, label+".manyArtifacts") {
		n = sp.nRows // enough keys for an artifact tree with internal nodes
	}
	ed := am.Editor()
	kb := val.NewTupleBuilder(sp.kd, ns)
	sp.artRootish = map[hash.Hash][]byte{}
	for j := 0; j < n; j++ {
		row := j
		if n != sp.nRows {
			row = rapid.IntRange(0, sp.nRows-1).Draw(t, fmt.Sprintf("%s.art%d.row", label, j))
		}
		kb.PutInt64(0, int64(row))
		k, err := kb.Build(ctx, ns.Pool())
		if err != nil {
			t.Fatalf("build key: %v", err)
		}
		payload := c09Payload(fmt.Sprintf("m%d.art%d", mi, j), 40+j%50)
		rootish, err := ns.WriteBytes(ctx, payload)
		if err != nil {
			t.Fatalf("WriteBytes: %v", err)
		}
		sp.artRootish[rootish] = payload
		at := prolly.ArtifactType(1 + rapid.IntRange(0, 4).Draw(t, fmt.Sprintf("%s.art%d.type", label, j)))
		var vih []byte
		if at != prolly.ArtifactTypeConflict {
			vih = prolly.ConstraintViolationInfoHash([]byte(fmt.Sprintf("info %d", j)))
		}
		if err := ed.Add(ctx, k, rootish, at, []byte(fmt.Sprintf(`{"n":%d}`, j)), vih); err != nil {
			t.Fatalf("ArtifactsEditor.Add: %v", err)
		}
	}
	if am, err = ed.Flush(ctx); err != nil {
		t.Fatalf("ArtifactsEditor.Flush: %v", err)
	}
	sp.artifacts, sp.hasArtifacts = am, true
	sp.desc += fmt.Sprintf("+artifacts{n=%d height=%d}", n, am.Height())
}

func c09NodesCase(t *rapid.T, rec *vh.Recorder) {
	ctx := context.Background()
	storage := &chunks.TestStorage{}
	ddb, err := doltdb.DoltDBFromCS(storage.NewViewWithDefaultFormat(), "verif")
	if err != nil {
		t.Fatalf("DoltDBFromCS: %v", err)
	}
	defer ddb.Close()
	ns := ddb.NodeStore()
	nMaps := rapid.IntRange(1, 2).Draw(t, "nMaps")
	rv, err := doltdb.EmptyRootValue(ctx, ddb.ValueReadWriter(), ns)
	if err != nil {
		t.Fatalf("EmptyRootValue: %v", err)
	}
	var maps []*c09MapSpec
	for mi := 0; mi < nMaps; mi++ {
		sp := c09BuildMap(t, ctx, ns, fmt.Sprintf("map%d", mi), mi)
		maps = append(maps, sp)
		// the Table message embeds the root node of its primary index; its schema is not
		// consulted by the walker
		tbl, err := doltdb.NewTable(ctx, ddb.ValueReadWriter(), ns, c09Schema(t, 0, uint64(100*(mi+1))), durable.IndexFromProllyMap(sp.m), nil, nil)
		if err != nil {
			t.Fatalf("NewTable: %v", err)
		}
		if rapid.IntRange(0, 2).Draw(t, fmt.Sprintf("map%d.withArtifacts", mi)) == 0 {
			c09BuildArtifacts(t, ctx, ns, sp, fmt.Sprintf("map%d", mi), mi)
			if tbl, err = tbl.SetArtifacts(ctx, durable.ArtifactIndexFromProllyMap(sp.artifacts)); err != nil {
				t.Fatalf("SetArtifacts: %v", err)
			}
		}
		if rv, err = rv.PutTable(ctx, doltdb.TableName{Name: fmt.Sprintf("t%d", mi)}, tbl); err != nil {
			t.Fatalf("PutTable: %v", err)
		}
	}
	rv, _, err = ddb.WriteRootValue(ctx, rv)
	if err != nil {
		t.Fatalf("WriteRootValue: %v", err)
	}
	if _, err = ddb.CommitValue(ctx, ref.NewBranchRef("main"), rv.NomsValue(), datas.CommitOptions{Meta: verifMeta(0)}); err != nil {
		t.Fatalf("CommitValue: %v", err)
	}

	raw := storage.NewViewWithDefaultFormat()
	rawNS := tree.NewNodeStore(raw)
	nodes, evals := 0, 0
	for mi, sp := range maps {
		rootEmb, n := c09CheckTree(t, ctx, raw, rawNS, sp.m.Node(), nil, sp.vd, sp.desc, sp.expected)
		nodes += n
		if sp.hasArtifacts {
			akd, _ := sp.artifacts.Descriptors()
			_, n = c09CheckTree(t, ctx, raw, rawNS, sp.artifacts.Node(), akd, nil, sp.desc+" artifact map", sp.artRootish)
			nodes += n
		}
		// the Table chunk
		th, ok, err := rv.GetTableHash(ctx, doltdb.TableName{Name: fmt.Sprintf("t%d", mi)})
		if err != nil || !ok {
			t.Fatalf("GetTableHash: %v %v", ok, err)
		}
		tc, err := raw.Get(ctx, th)
		if err != nil || tc.IsEmpty() {
			t.Fatalf("table chunk %s not in the store: %v", th, err)
		}
		if fid := serial.GetFileID(tc.Data()); fid != serial.TableFileID {
			t.Fatalf("table hash %s is a %s chunk", th, fid)
		}
		trep := c09WalkChunk(t, tc)
		for a := range rootEmb {
			if !trep[a] {
				t.Fatalf("%s: the Table chunk %s embeds the root node of its primary index, which stores the address %s, but the walker does not report it for the Table chunk", sp.desc, th, a)
			}
		}
		if sp.hasArtifacts && !trep[sp.artifacts.HashOf()] {
			t.Fatalf("%s: the Table chunk %s does not report the address %s of its artifact map", sp.desc, th, sp.artifacts.HashOf())
		}
		for a := range sp.expected {
			if bytes.Contains(tc.Data(), a[:]) && !trep[a] {
				t.Fatalf("%s: the bytes of Table chunk %s contain the planted address %s but the walker does not report it", sp.desc, th, a)
			}
		}
		evals += len(rootEmb)
	}

	// (iii) copy exactly the walker-reported closure of the store root and read everything back
	// through the loaders: branch -> commit -> root value -> table -> primary index
	reach, storeRoot := c09Reachable(t, ctx, raw)
	dstStorage := &chunks.TestStorage{}
	dst := dstStorage.NewViewWithDefaultFormat()
	for _, c := range reach {
		if err := dst.Put(ctx, c, func(chunks.Chunk) chunks.InsertAddrsCb {
			return func(context.Context, hash.HashSet, chunks.PendingRefExists) error { return nil }
		}); err != nil {
			t.Fatalf("copy chunk: %v", err)
		}
	}
	if ok, err := dst.Commit(ctx, storeRoot, hash.Hash{}); err != nil || !ok {
		t.Fatalf("set the root of the copy: %v %v", ok, err)
	}
	ddb2, err := doltdb.DoltDBFromCS(dst, "verif")
	if err != nil {
		t.Fatalf("DoltDBFromCS(copy): %v", err)
	}
	defer ddb2.Close()
	dstNS := ddb2.NodeStore()
	dstNS.PurgeCaches() // node stores share a process-wide cache; reads must really hit the copy
	cm2, err := ddb2.ResolveCommitRef(ctx, ref.NewBranchRef("main"))
	if err != nil {
		t.Fatalf("ResolveCommitRef on the copy: %v", err)
	}
	rv2, err := cm2.GetRootValue(ctx)
	if err != nil {
		t.Fatalf("GetRootValue on the copy: %v", err)
	}
	values := 0
	for mi, sp := range maps {
		tbl2, ok, err := rv2.GetTable(ctx, doltdb.TableName{Name: fmt.Sprintf("t%d", mi)})
		if err != nil || !ok {
			t.Fatalf("%s: GetTable on the copy: %v %v", sp.desc, ok, err)
		}
		idx2, err := tbl2.GetRowData(ctx)
		if err != nil {
			t.Fatalf("%s: GetRowData on the copy: %v", sp.desc, err)
		}
		pm2, err := durable.ProllyMapFromIndex(idx2)
		if err != nil {
			t.Fatalf("%s: ProllyMapFromIndex: %v", sp.desc, err)
		}
		if pm2.HashOf() != sp.m.HashOf() {
			t.Fatalf("%s: the table's primary index read from the copy has root %s, written %s", sp.desc, pm2.HashOf(), sp.m.HashOf())
		}
		// the table's schema is a stand-in; rows are decoded with the descriptors they were written with
		m2 := prolly.NewMap(pm2.Node(), dstNS, sp.kd, sp.vd)
		it, err := m2.IterAll(ctx)
		if err != nil {
			t.Fatalf("%s: IterAll on the copy: %v", sp.desc, err)
		}
		rows := 0
		for {
			k, v, err := it.Next(ctx)
			if err == io.EOF {
				break
			}
			if err != nil {
				t.Fatalf("%s: reading rows from the copy of the walker-reported closure: %v", sp.desc, err)
			}
			r, _ := sp.kd.GetInt64(0, k)
			if int(r) != rows {
				t.Fatalf("%s: row %d read back as key %d", sp.desc, rows, r)
			}
			for _, a := range c09TupleAddrs(t, sp.vd, v) {
				values++
				if has, err := dst.Has(ctx, a); err != nil || !has {
					t.Fatalf("%s: row %d points at %s, which the reference walker did not report from the store root: a store holding exactly the reported closure cannot read the value (Has=%v err=%v)", sp.desc, r, a, has, err)
				}
				got, err := dstNS.ReadBytes(ctx, a)
				if err != nil {
					t.Fatalf("%s: row %d value %s is not readable from the copy of the walker-reported closure: %v", sp.desc, r, a, err)
				}
				want := sp.expected[a]
				if want == nil {
					// adaptive value: regenerate the payload from its tag prefix
					bar := bytes.IndexByte(got, '|')
					if bar < 0 {
						t.Fatalf("%s: row %d value %s read back from the copy has no tag prefix (%d bytes)", sp.desc, r, a, len(got))
					}
					want = c09Payload(string(got[:bar]), len(got))
				}
				if !bytes.Equal(got, want) {
					t.Fatalf("%s: row %d value %s read back from the copy differs from what was written (%d vs %d bytes)", sp.desc, r, a, len(got), len(want))
				}
			}
			rows++
		}
		if rows != sp.nRows {
			t.Fatalf("%s: %d rows read back from the copy, %d written", sp.desc, rows, sp.nRows)
		}
		if sp.hasArtifacts {
			ai, err := tbl2.GetArtifacts(ctx)
			if err != nil {
				t.Fatalf("%s: GetArtifacts on the copy: %v", sp.desc, err)
			}
			am2 := durable.ProllyMapFromArtifactIndex(ai)
			am2 = prolly.NewArtifactMap(am2.Node(), dstNS, sp.kd)
			ait, err := am2.IterAllArtifacts(ctx)
			if err != nil {
				t.Fatalf("%s: IterAllArtifacts on the copy: %v", sp.desc, err)
			}
			seen := 0
			for {
				art, err := ait.Next(ctx)
				if err == io.EOF {
					break
				}
				if err != nil {
					t.Fatalf("%s: reading artifacts from the copy of the walker-reported closure: %v", sp.desc, err)
				}
				seen++
				values++
				want, ok := sp.artRootish[art.SourceRootish]
				if !ok {
					t.Fatalf("%s: artifact read back with source root-ish %s which was never written", sp.desc, art.SourceRootish)
				}
				got, err := dstNS.ReadBytes(ctx, art.SourceRootish)
				if has, herr := dst.Has(ctx, art.SourceRootish); herr != nil || !has || err != nil || !bytes.Equal(got, want) {
					t.Fatalf("%s: artifact's source root-ish %s is not readable from the copy of the walker-reported closure (Has=%v, err=%v/%v, %d of %d bytes)", sp.desc, art.SourceRootish, has, herr, err, len(got), len(want))
				}
			}
			if cnt, _ := sp.artifacts.Count(); seen != cnt {
				t.Fatalf("%s: %d artifacts read back from the copy, %d written", sp.desc, seen, cnt)
			}
		}
	}

	var descs, cl []string
	nAddr, maxH := 0, 0
	for _, sp := range maps {
		descs = append(descs, sp.desc)
		nAddr += sp.nAddr
		maxH = max(maxH, sp.m.Height())
		if sp.hasArtifacts {
			cl = append(cl, fmt.Sprintf("artifact_map_height=%d", sp.artifacts.Height()))
		}
		for _, c := range sp.cols {
			if c09IsAddr(c.enc) || c09IsAdaptive(c.enc) {
				k := "col:" + c.name
				if len(sp.cols) == 1 {
					k += ":alone"
				}
				cl = append(cl, k)
			}
		}
	}
	cl = append(cl, fmt.Sprintf("tree_height=%d", maxH))
	rec.Evals(evals + values + nodes)
	rec.Class("nodes_checked", nodes)
	rec.Class("values_read_back", values)
	rec.Case(strings.Join(descs, " "), nAddr > 0, cl...)
}

func c09NodesTest(t *testing.T) {
	rec := vh.NewRecorder("C09", "nodes", "exploration", c09NodesRule,
		"ExtendedAddrEnc (Doltgres-only extended types; val.IterAddressFields does not list it) is not generated; the adaptive extended encoding is",
		"keys are int64 only (the node serializer records address offsets for value tuples only; Dolt never gives a key column an address encoding)",
		"addressed values are raw byte blobs written with NodeStore.WriteBytes / the tuple builder (indexed JSON documents, vector indexes, merge-artifact and conflict maps are not built)")
	defer rec.Write(t)
	vh.Check(t, "nodes", 700, 500, func(rt *rapid.T) { c09NodesCase(rt, rec) })
}
