package doltdb_test

// C18 (doltdb part) - commit metadata describes the commit graph exactly, seen through
// doltdb.Commit: Height, NumParents/ParentHashes/GetParent, GetCommitClosure, HashOf, with
// in-memory and file-backed (journal) storage re-opened at drawn points.

import (
	"context"
	"io"
	"math/bits"
	"testing"

	"pgregory.net/rapid"

	"github.com/dolthub/dolt/go/store/hash"
	"github.com/dolthub/dolt/go/zzverif/vh"
)

const c18DoltdbRule = "commit DAGs as in the datas part (1..12 / 1..40 commits; extra roots, duplicate parents, criss-cross, octopus) created through DoltDB.CommitValue (roots), CommitDanglingWithParentCommits and CommitWithParentCommits (onto a branch whose head is the first parent); storage is an in-memory chunk store or (about 1 case in 6) a file-backed store under a scratch directory, re-opened before ~8% of the commits and before the second read-back. Oracle: own adjacency lists; compared with doltdb.Commit Height/NumParents/ParentHashes/GetParent, GetCommitClosure iterated in full (exactly the proper ancestors with heights; commit itself absent), HashOf == address at creation. Non-trivial: >= 8 commits and a merge whose two distinct parents are themselves merges."

func c18CheckRepo(t *rapid.T, ctx context.Context, d *verifDag, r *verifRepo, h, anc []uint64) {
	for i := 0; i < d.n(); i++ {
		c := r.commit(t, ctx, i)
		if a, _ := c.HashOf(); a != r.addrs[i] {
			t.Fatalf("commit %d read by %s reports HashOf %s", i, r.addrs[i], a)
		}
		if vh, err := c.Value().Hash(r.ddb.Format()); err != nil || vh != r.addrs[i] {
			t.Fatalf("commit %d: stored value hashes to %s (err %v), address at creation %s", i, vh, err, r.addrs[i])
		}
		if got, err := c.Height(); err != nil || got != h[i] {
			t.Fatalf("commit %d parents %v: Height() = %d,%v want %d (dag %v)", i, d.parents[i], got, err, h[i], d)
		}
		if c.NumParents() != len(d.parents[i]) {
			t.Fatalf("commit %d: NumParents() = %d, want parents %v (dag %v)", i, c.NumParents(), d.parents[i], d)
		}
		phs, err := c.ParentHashes(ctx)
		if err != nil {
			t.Fatalf("ParentHashes(%d): %v", i, err)
		}
		for k, p := range d.parents[i] {
			if phs[k] != r.addrs[p] {
				t.Fatalf("commit %d: parent #%d is %s, want commit %d", i, k, phs[k], p)
			}
			op, err := c.GetParent(ctx, k)
			if err != nil || op.Addr != r.addrs[p] {
				t.Fatalf("commit %d: GetParent(%d) = %v,%v want commit %d", i, k, op, err, p)
			}
		}
		want := map[hash.Hash]uint64{}
		for _, a := range verifBitsList(anc[i]) {
			want[r.addrs[a]] = h[a]
		}
		cc, err := c.GetCommitClosure(ctx)
		if err != nil {
			t.Fatalf("GetCommitClosure(%d): %v", i, err)
		}
		if cc.IsEmpty() {
			if len(want) != 0 {
				t.Fatalf("commit %d parents %v has an empty closure, want %d ancestors (dag %v)", i, d.parents[i], len(want), d)
			}
			continue
		}
		it, err := cc.IterAllReverse(ctx)
		if err != nil {
			t.Fatalf("closure iteration (%d): %v", i, err)
		}
		got := map[hash.Hash]uint64{}
		for {
			k, _, err := it.Next(ctx)
			if err == io.EOF {
				break
			}
			if err != nil {
				t.Fatalf("closure iteration (%d): %v", i, err)
			}
			if _, dup := got[k.Addr()]; dup {
				t.Fatalf("closure of commit %d lists %s twice", i, k.Addr())
			}
			got[k.Addr()] = k.Height()
		}
		if len(got) != len(want) {
			t.Fatalf("closure of commit %d (parents %v) has %d entries, want %d ancestors (dag %v)", i, d.parents[i], len(got), len(want), d)
		}
		for a, hh := range want {
			if gh, ok := got[a]; !ok || gh != hh {
				t.Fatalf("closure of commit %d (parents %v): ancestor %s height %d, listed=%v with height %d (dag %v)", i, d.parents[i], a, hh, ok, gh, d)
			}
		}
	}
}

func c18DoltdbCase(t *rapid.T, rec *vh.Recorder) {
	ctx := context.Background()
	d := verifGenDag(t, verifMaxCommits())
	fileBacked := rapid.IntRange(0, 5).Draw(t, "fileBacked") == 0
	r := verifBuildRepo(t, ctx, d, fileBacked)
	defer r.close()
	h, anc := d.heights(), d.ancestors()
	c18CheckRepo(t, ctx, d, r, h, anc)
	r.reopen(t, ctx)
	c18CheckRepo(t, ctx, d, r, h, anc)
	st := d.stats()
	cl := st.classes()
	if fileBacked {
		cl = append(cl, "file_backed")
	} else {
		cl = append(cl, "in_memory")
	}
	if r.reopens > 1 {
		cl = append(cl, "reopened_midway")
	}
	nAnc := 0
	for _, a := range anc {
		nAnc += bits.OnesCount64(a)
	}
	rec.Evals(2*d.n() - 1)
	rec.Class("closure_entries_compared", 2*nAnc)
	rec.Case(d.String(), d.n() >= 8 && st.mergeOfMerges, cl...)
}

func TestVerif_C18(t *testing.T) {
	rec := vh.NewRecorder("C18", "doltdb", "exploration", c18DoltdbRule,
		"all commits of a case share one (empty) root value; commits differ by parents and metadata (explicit dates)")
	defer rec.Write(t)
	vh.Check(t, "dag", 700, 200, func(rt *rapid.T) { c18DoltdbCase(rt, rec) })
}
