package doltdb_test

// C09 - the reference walker reports every address an object can dereference.
//
// A store is filled, through the real constructors, with objects whose address fields point
// at objects nothing else references (a working set with drawn merge / cherry-pick / revert /
// rebase state, merge commits with closures, tags, stashes, root values with tables, schemas,
// secondary indexes and a foreign-key collection). Then
//   report: the set reachable from the store root by the walker GC / pull / fsck use
//           (types.WalkAddrsForNBF) is computed on the raw chunks;
//   use:    a fresh database over a recording chunk store loads everything through the public
//           loaders; every chunk address it reads must be in the reported set;
//   scan:   for every chunk of an address-bearing kind (working set, commit, tag, stash, root
//           value, table) every known chunk address that occurs in its bytes must be reported
//           by the walker for that chunk (catches fields no loader touches).

import (
	"bytes"
	"context"
	"fmt"
	"io"
	"sort"
	"strings"
	"sync"
	"testing"

	"github.com/dolthub/go-mysql-server/sql"
	"pgregory.net/rapid"

	"github.com/dolthub/dolt/go/gen/fb/serial"
	"github.com/dolthub/dolt/go/libraries/doltcore/doltdb"
	"github.com/dolthub/dolt/go/libraries/doltcore/ref"
	"github.com/dolthub/dolt/go/libraries/doltcore/schema"
	"github.com/dolthub/dolt/go/store/chunks"
	"github.com/dolthub/dolt/go/store/datas"
	"github.com/dolthub/dolt/go/store/hash"
	"github.com/dolthub/dolt/go/store/types"
	"github.com/dolthub/dolt/go/zzverif/vh"
)

const c09Rule = "one store per case, filled through DoltDB: a working set for refs/heads/main with working/staged roots and a drawn state {none, merge, cherry-pick, revert(+pending hashes)} x {pre-merge head commit present or not} x {rebase state or not}; 0-2 merge commits with 2-3 parents on extra branches; 0-2 tags; 0-2 stashes; roots carrying 0-2 tables (schema, empty primary index, 0-2 secondary indexes) and optionally a foreign-key collection. Every address field is planted with an object referenced from nowhere else (dangling commits, unique root values). Oracle: (use subset-of report) every chunk address read while a fresh database loads all refs, working set state, commits, closures, roots, tables, schemas, indexes, tags and stashes must be reachable from the store root through types.WalkAddrsForNBF; (scan) in every working-set/commit/tag/stash/root-value/table chunk, each known chunk address occurring in the bytes must be reported by the walker for that chunk. Non-trivial: the case has >= 1 optional address field set (merge/rebase state, pre-merge head, closure, secondary index, FK collection, stash, tag); distinct by the shape descriptor."

const c09FindingID = "C09-ws-state-addrs"

// recording chunk store: remembers which addresses were fetched, and under which loader step
type c09RecCS struct {
	chunks.ChunkStore
	mu    sync.Mutex
	step  string
	reads map[hash.Hash]string
}

func (r *c09RecCS) note(h hash.Hash) {
	r.mu.Lock()
	if _, ok := r.reads[h]; !ok {
		r.reads[h] = r.step
	}
	r.mu.Unlock()
}

func (r *c09RecCS) setStep(s string) {
	r.mu.Lock()
	r.step = s
	r.mu.Unlock()
}

func (r *c09RecCS) Get(ctx context.Context, h hash.Hash) (chunks.Chunk, error) {
	r.note(h)
	return r.ChunkStore.Get(ctx, h)
}

func (r *c09RecCS) GetMany(ctx context.Context, hashes hash.HashSet, found func(context.Context, *chunks.Chunk)) error {
	for h := range hashes {
		r.note(h)
	}
	return r.ChunkStore.GetMany(ctx, hashes, found)
}

type c09Shape struct {
	mergeKind   int // 0 none, 1 merge, 2 cherry-pick, 3 revert
	preHead     bool
	rebase      bool
	nMerges     int
	mergeArity  []int
	nTags       int
	nStashes    int
	tablesInWs  int
	tablesInCm  int
	nIdx        int
	fk          bool
	skipKnown   bool
	excludedCnt int
}

func (s c09Shape) String() string {
	return fmt.Sprintf("ws{merge=%s preMergeHead=%v rebase=%v tables=%d} mergeCommits=%v tags=%d stashes=%d committedTables=%d secondaryIdx=%d fk=%v knownFieldsSkipped=%v",
		[]string{"none", "merge", "cherry-pick", "revert"}[s.mergeKind], s.preHead, s.rebase, s.tablesInWs, s.mergeArity, s.nTags, s.nStashes, s.tablesInCm, s.nIdx, s.fk, s.skipKnown)
}

type c09World struct {
	storage *chunks.TestStorage
	ddb     *doltdb.DoltDB
	seq     int
	head    *doltdb.Commit // head of main
	headRt  doltdb.RootValue
	// addresses planted in the three working-set fields of the known finding
	knownFieldAddrs map[hash.Hash]string
	tags            []string
	branches        []string
}

func (w *c09World) next() int { w.seq++; return w.seq }

// c09TB is what the builders need of *rapid.T / *testing.T
type c09TB interface {
	Fatalf(format string, args ...any)
}

func c09Schema(t c09TB, nIdx int, tagBase uint64) schema.Schema {
	cc := schema.NewColCollection(
		schema.NewColumn("pk", tagBase+1, types.IntKind, true, schema.NotNullConstraint{}),
		schema.NewColumn("a", tagBase+2, types.IntKind, false),
		schema.NewColumn("b", tagBase+3, types.IntKind, false),
	)
	sch, err := schema.SchemaFromCols(cc)
	if err != nil {
		t.Fatalf("SchemaFromCols: %v", err)
	}
	for i := 0; i < nIdx; i++ {
		if _, err := sch.Indexes().AddIndexByColTags(fmt.Sprintf("idx%d", i), []uint64{tagBase + 2 + uint64(i)}, nil, schema.IndexProperties{}); err != nil {
			t.Fatalf("AddIndexByColTags: %v", err)
		}
	}
	return sch
}

// uniqueRoot makes a root value no other object of the case equals: a database schema named
// after a counter, plus nTables empty tables (each with its own schema chunk and index set).
func (w *c09World) uniqueRoot(t c09TB, ctx context.Context, nTables, nIdx int, fk bool) doltdb.RootValue {
	rv, err := doltdb.EmptyRootValue(ctx, w.ddb.ValueReadWriter(), w.ddb.NodeStore())
	if err != nil {
		t.Fatalf("EmptyRootValue: %v", err)
	}
	k := w.next()
	if rv, err = rv.CreateDatabaseSchema(ctx, schema.DatabaseSchema{Name: fmt.Sprintf("s%d", k)}); err != nil {
		t.Fatalf("CreateDatabaseSchema: %v", err)
	}
	for i := 0; i < nTables; i++ {
		sch := c09Schema(t, nIdx, uint64(1000*k+10*i))
		if rv, err = doltdb.CreateEmptyTable(ctx, rv, doltdb.TableName{Name: fmt.Sprintf("t%d_%d", k, i)}, sch); err != nil {
			t.Fatalf("CreateEmptyTable: %v", err)
		}
	}
	if fk && nTables >= 2 {
		fkc, err := doltdb.NewForeignKeyCollection(doltdb.ForeignKey{
			Name:                   fmt.Sprintf("fk%d", k),
			TableName:              doltdb.TableName{Name: fmt.Sprintf("t%d_0", k)},
			TableColumns:           []uint64{uint64(1000*k) + 2},
			ReferencedTableName:    doltdb.TableName{Name: fmt.Sprintf("t%d_1", k)},
			ReferencedTableColumns: []uint64{uint64(1000*k+10) + 1},
			UnresolvedFKDetails: doltdb.UnresolvedFKDetails{
				TableColumns:           []string{"a"},
				ReferencedTableColumns: []string{"pk"},
			},
		})
		if err != nil {
			t.Fatalf("NewForeignKeyCollection: %v", err)
		}
		if rv, err = rv.PutForeignKeyCollection(ctx, fkc); err != nil {
			t.Fatalf("PutForeignKeyCollection: %v", err)
		}
	}
	return rv
}

// danglingCommit creates a commit referenced by no ref, with its own unique root value.
func (w *c09World) danglingCommit(t c09TB, ctx context.Context, parents []*doltdb.Commit, nTables, nIdx int, fk bool) *doltdb.Commit {
	rv := w.uniqueRoot(t, ctx, nTables, nIdx, fk)
	_, vh, err := w.ddb.WriteRootValue(ctx, rv)
	if err != nil {
		t.Fatalf("WriteRootValue: %v", err)
	}
	cm, err := w.ddb.CommitDanglingWithParentCommits(ctx, vh, parents, verifMeta(w.next()))
	if err != nil {
		t.Fatalf("CommitDanglingWithParentCommits: %v", err)
	}
	return cm
}

func c09BuildWorld(t *rapid.T, ctx context.Context, skipKnown bool) (*c09World, c09Shape) {
	w := &c09World{storage: &chunks.TestStorage{}, knownFieldAddrs: map[hash.Hash]string{}}
	var err error
	if w.ddb, err = doltdb.DoltDBFromCS(w.storage.NewViewWithDefaultFormat(), "verif"); err != nil {
		t.Fatalf("DoltDBFromCS: %v", err)
	}
	var sh c09Shape
	sh.skipKnown = skipKnown
	sh.tablesInCm = rapid.IntRange(0, 2).Draw(t, "committedTables")
	sh.nIdx = rapid.IntRange(0, 2).Draw(t, "secondaryIndexes")
	sh.fk = rapid.Bool().Draw(t, "fkCollection")
	// main: one root commit
	w.headRt = w.uniqueRoot(t, ctx, sh.tablesInCm, sh.nIdx, sh.fk)
	var rootV types.Value
	if w.headRt, _, err = w.ddb.WriteRootValue(ctx, w.headRt); err != nil {
		t.Fatalf("WriteRootValue: %v", err)
	}
	rootV = w.headRt.NomsValue()
	if w.head, err = w.ddb.CommitValue(ctx, ref.NewBranchRef("main"), rootV, datas.CommitOptions{Meta: verifMeta(w.next())}); err != nil {
		t.Fatalf("CommitValue: %v", err)
	}
	w.branches = append(w.branches, "main")

	// merge commits on their own branches; their parents are dangling commits
	sh.nMerges = rapid.IntRange(0, 2).Draw(t, "mergeCommits")
	for i := 0; i < sh.nMerges; i++ {
		ar := rapid.IntRange(2, 3).Draw(t, fmt.Sprintf("merge%d.parents", i))
		sh.mergeArity = append(sh.mergeArity, ar)
		var ps []*doltdb.Commit
		for k := 0; k < ar; k++ {
			ps = append(ps, w.danglingCommit(t, ctx, []*doltdb.Commit{w.head}, 0, 0, false))
		}
		m := w.danglingCommit(t, ctx, ps, sh.tablesInCm, sh.nIdx, sh.fk)
		name := fmt.Sprintf("merged%d", i)
		if err := w.ddb.NewBranchAtCommit(ctx, ref.NewBranchRef(name), m, nil); err != nil {
			t.Fatalf("NewBranchAtCommit: %v", err)
		}
		w.branches = append(w.branches, name)
	}
	// tags on dangling commits
	sh.nTags = rapid.IntRange(0, 2).Draw(t, "tags")
	for i := 0; i < sh.nTags; i++ {
		c := w.danglingCommit(t, ctx, []*doltdb.Commit{w.head}, 0, 0, false)
		name := fmt.Sprintf("v%d", i)
		if err := w.ddb.NewTagAtCommit(ctx, ref.NewTagRef(name), c, &datas.TagMeta{Name: "verif", Email: "verif@example.com", Timestamp: 1000, Description: "tag"}); err != nil {
			t.Fatalf("NewTagAtCommit: %v", err)
		}
		w.tags = append(w.tags, name)
	}
	// stashes: stash root and head commit referenced only by the stash
	sh.nStashes = rapid.IntRange(0, 2).Draw(t, "stashes")
	for i := 0; i < sh.nStashes; i++ {
		hc := w.danglingCommit(t, ctx, []*doltdb.Commit{w.head}, 0, 0, false)
		sr := w.uniqueRoot(t, ctx, rapid.IntRange(0, 1).Draw(t, fmt.Sprintf("stash%d.tables", i)), 0, false)
		if err := w.ddb.AddStash(ctx, hc, sr, datas.NewStashMeta("main", fmt.Sprintf("stash %d", i), nil), doltdb.DoltCliRef); err != nil {
			t.Fatalf("AddStash: %v", err)
		}
	}

	// the working set of main
	sh.tablesInWs = rapid.IntRange(0, 2).Draw(t, "ws.tables")
	sh.mergeKind = rapid.IntRange(0, 3).Draw(t, "ws.mergeState")
	sh.preHead = sh.mergeKind != 0 && rapid.Bool().Draw(t, "ws.preMergeHead")
	sh.rebase = rapid.Bool().Draw(t, "ws.rebaseState")
	wsRef, err := ref.WorkingSetRefForHead(ref.NewBranchRef("main"))
	if err != nil {
		t.Fatalf("WorkingSetRefForHead: %v", err)
	}
	ws := doltdb.EmptyWorkingSet(wsRef)
	working := w.uniqueRoot(t, ctx, sh.tablesInWs, sh.nIdx, false)
	staged := w.uniqueRoot(t, ctx, sh.tablesInWs, 0, false)
	if sh.mergeKind != 0 {
		from := w.danglingCommit(t, ctx, []*doltdb.Commit{w.head}, 0, 0, false)
		var pre *doltdb.Commit
		if sh.preHead {
			if skipKnown {
				pre = w.head // reachable anyway; the field itself is excluded (known finding)
				sh.excludedCnt++
			} else {
				pre = w.danglingCommit(t, ctx, []*doltdb.Commit{w.head}, 0, 0, false)
			}
			a, _ := pre.HashOf()
			w.knownFieldAddrs[a] = "merge_state.pre_merge_head_commit_addr"
		}
		ws = ws.WithWorkingRoot(w.uniqueRoot(t, ctx, 0, 0, false)) // becomes the pre-merge working root
		switch sh.mergeKind {
		case 1:
			ws = ws.StartMerge(pre, from, "feature")
		case 2:
			ws = ws.StartCherryPick(pre, from, "feature~1")
		default:
			fa, _ := from.HashOf()
			ws = ws.StartRevert(pre, from, "HEAD~1", []string{fa.String()})
		}
	}
	if sh.rebase {
		var onto *doltdb.Commit
		var prev doltdb.RootValue
		if skipKnown {
			onto, prev = w.head, w.headRt
			sh.excludedCnt += 2
		} else {
			onto = w.danglingCommit(t, ctx, []*doltdb.Commit{w.head}, 0, 0, false)
			prev = w.uniqueRoot(t, ctx, 0, 0, false)
		}
		if ws, err = ws.StartRebase(sql.NewEmptyContext(), onto, "main", prev, doltdb.EmptyCommitHandling(1), doltdb.EmptyCommitHandling(0), false); err != nil {
			t.Fatalf("StartRebase: %v", err)
		}
		oa, _ := onto.HashOf()
		w.knownFieldAddrs[oa] = "rebase_state.onto_commit_addr"
		pr, pa, err := w.ddb.WriteRootValue(ctx, prev)
		_ = pr
		if err != nil {
			t.Fatalf("WriteRootValue: %v", err)
		}
		w.knownFieldAddrs[pa] = "rebase_state.pre_working_root_addr"
	}
	ws = ws.WithWorkingRoot(working).WithStagedRoot(staged)
	prevHash := hash.Hash{}
	if cur, err := w.ddb.ResolveWorkingSet(ctx, wsRef); err == nil {
		prevHash, _ = cur.HashOf()
	}
	if err := w.ddb.UpdateWorkingSet(ctx, wsRef, ws, prevHash, &datas.WorkingSetMeta{Name: "verif", Email: "verif@example.com", Description: "ws", Timestamp: 1000}, nil); err != nil {
		t.Fatalf("UpdateWorkingSet: %v", err)
	}
	return w, sh
}

// c09Reachable walks from the store root with the walker GC/pull/fsck use, on the raw chunks.
func c09Reachable(t c09TB, ctx context.Context, cs chunks.ChunkStore) (map[hash.Hash]chunks.Chunk, hash.Hash) {
	root, err := cs.Root(ctx)
	if err != nil {
		t.Fatalf("Root: %v", err)
	}
	walk := types.WalkAddrsForNBF(types.Format_DOLT, nil)
	seen := map[hash.Hash]chunks.Chunk{}
	queue := []hash.Hash{root}
	for len(queue) > 0 {
		h := queue[0]
		queue = queue[1:]
		if _, ok := seen[h]; ok || h.IsEmpty() {
			continue
		}
		c, err := cs.Get(ctx, h)
		if err != nil {
			t.Fatalf("Get(%s): %v", h, err)
		}
		if c.IsEmpty() {
			t.Fatalf("chunk %s is reported by the walker but absent from the store", h)
		}
		seen[h] = c
		if err := walk(c, func(a hash.Hash, _ bool) error { queue = append(queue, a); return nil }); err != nil {
			t.Fatalf("walking chunk %s (%s): %v", h, serial.GetFileID(c.Data()), err)
		}
	}
	return seen, root
}

func c09IterIndex(ctx context.Context, t *rapid.T, tbl *doltdb.Table, sch schema.Schema) {
	if _, err := tbl.GetRowData(ctx); err != nil {
		t.Fatalf("GetRowData: %v", err)
	}
	if _, err := tbl.GetIndexSet(ctx); err != nil {
		t.Fatalf("GetIndexSet: %v", err)
	}
	for _, ix := range sch.Indexes().AllIndexes() {
		if _, err := tbl.GetIndexRowData(ctx, ix.Name()); err != nil {
			t.Fatalf("GetIndexRowData(%s): %v", ix.Name(), err)
		}
	}
}

func c09UseRoot(ctx context.Context, t *rapid.T, rv doltdb.RootValue) {
	if rv == nil {
		return
	}
	if _, err := rv.GetForeignKeyCollection(ctx); err != nil {
		t.Fatalf("GetForeignKeyCollection: %v", err)
	}
	if _, err := rv.GetDatabaseSchemas(ctx); err != nil {
		t.Fatalf("GetDatabaseSchemas: %v", err)
	}
	err := rv.IterTables(ctx, func(name doltdb.TableName, tbl *doltdb.Table, sch schema.Schema) (bool, error) {
		c09IterIndex(ctx, t, tbl, sch)
		return false, nil
	})
	if err != nil {
		t.Fatalf("IterTables: %v", err)
	}
}

func c09UseCommit(ctx context.Context, t *rapid.T, c *doltdb.Commit, depth int) {
	if c == nil {
		return
	}
	rv, err := c.GetRootValue(ctx)
	if err != nil {
		t.Fatalf("GetRootValue: %v", err)
	}
	c09UseRoot(ctx, t, rv)
	cc, err := c.GetCommitClosure(ctx)
	if err != nil {
		t.Fatalf("GetCommitClosure: %v", err)
	}
	if !cc.IsEmpty() {
		it, err := cc.IterAllReverse(ctx)
		if err != nil {
			t.Fatalf("closure iteration: %v", err)
		}
		for {
			if _, _, err := it.Next(ctx); err == io.EOF {
				break
			} else if err != nil {
				t.Fatalf("closure iteration: %v", err)
			}
		}
	}
	if depth > 0 {
		for i := 0; i < c.NumParents(); i++ {
			op, err := c.GetParent(ctx, i)
			if err != nil {
				t.Fatalf("GetParent: %v", err)
			}
			if p, ok := op.ToCommit(); ok {
				c09UseCommit(ctx, t, p, depth-1)
			}
		}
	}
}

// c09LoadEverything opens a fresh database over a recording view and uses every loader.
func c09LoadEverything(t *rapid.T, ctx context.Context, w *c09World) *c09RecCS {
	rec := &c09RecCS{ChunkStore: w.storage.NewViewWithDefaultFormat(), reads: map[hash.Hash]string{}}
	ddb, err := doltdb.DoltDBFromCS(rec, "verif")
	if err != nil {
		t.Fatalf("DoltDBFromCS: %v", err)
	}
	rec.setStep("working set of main")
	wsRef, _ := ref.WorkingSetRefForHead(ref.NewBranchRef("main"))
	ws, err := ddb.ResolveWorkingSet(ctx, wsRef)
	if err != nil {
		t.Fatalf("ResolveWorkingSet: %v", err)
	}
	c09UseRoot(ctx, t, ws.WorkingRoot())
	c09UseRoot(ctx, t, ws.StagedRoot())
	if ms := ws.MergeState(); ms != nil {
		rec.setStep("working set: merge state")
		c09UseCommit(ctx, t, ms.Commit(), 0)
		c09UseRoot(ctx, t, ms.PreMergeWorkingRoot())
		c09UseCommit(ctx, t, ms.PreMergeHeadCommit(), 0)
	}
	if rs := ws.RebaseState(); rs != nil {
		rec.setStep("working set: rebase state")
		c09UseCommit(ctx, t, rs.OntoCommit(), 0)
		c09UseRoot(ctx, t, rs.PreRebaseWorkingRoot())
	}
	for _, bn := range w.branches {
		rec.setStep("branch " + bn)
		c, err := ddb.ResolveCommitRef(ctx, ref.NewBranchRef(bn))
		if err != nil {
			t.Fatalf("ResolveCommitRef(%s): %v", bn, err)
		}
		c09UseCommit(ctx, t, c, 2)
	}
	for _, tn := range w.tags {
		rec.setStep("tag " + tn)
		tg, err := ddb.ResolveTag(ctx, ref.NewTagRef(tn))
		if err != nil {
			t.Fatalf("ResolveTag(%s): %v", tn, err)
		}
		c09UseCommit(ctx, t, tg.Commit, 0)
	}
	rec.setStep("stashes")
	sts, err := ddb.GetStashes(ctx)
	if err != nil {
		t.Fatalf("GetStashes: %v", err)
	}
	for i := range sts {
		rv, hc, _, err := ddb.GetStashRootAndHeadCommitAtIdx(ctx, i, doltdb.DoltCliRef)
		if err != nil {
			t.Fatalf("GetStashRootAndHeadCommitAtIdx(%d): %v", i, err)
		}
		c09UseRoot(ctx, t, rv)
		c09UseCommit(ctx, t, hc, 0)
	}
	rec.setStep("")
	_ = ddb.Close()
	return rec
}

var c09ScanKinds = map[string]bool{
	serial.WorkingSetFileID: true, serial.CommitFileID: true, serial.TagFileID: true, serial.StashFileID: true,
	serial.RootValueFileID: true, serial.TableFileID: true, serial.StashListFileID: true, serial.StoreRootFileID: true,
}

func c09Case(t *rapid.T, rec *vh.Recorder, skipKnown bool) {
	ctx := context.Background()
	w, sh := c09BuildWorld(t, ctx, skipKnown)
	defer w.ddb.Close()
	raw := w.storage.NewViewWithDefaultFormat()
	reach, root := c09Reachable(t, ctx, raw)

	// use subset-of report
	recCS := c09LoadEverything(t, ctx, w)
	var missing []string
	for h, step := range recCS.reads {
		if _, ok := reach[h]; !ok && h != root {
			kind := "?"
			if c, err := raw.Get(ctx, h); err == nil && !c.IsEmpty() {
				kind = serial.GetFileID(c.Data())
			}
			missing = append(missing, fmt.Sprintf("%s (%s chunk, read while loading: %s; field: %s)", h, kind, step, w.knownFieldAddrs[h]))
		}
	}
	sort.Strings(missing)
	if len(missing) > 0 {
		t.Fatalf("loading the store read %d chunk(s) that the reference walker does not reach from the store root:\n  %s\nshape: %s", len(missing), strings.Join(missing, "\n  "), sh)
	}

	// scan: known addresses = everything reachable or read
	known := map[hash.Hash]chunks.Chunk{}
	for h, c := range reach {
		known[h] = c
	}
	for h := range recCS.reads {
		if _, ok := known[h]; !ok {
			if c, err := raw.Get(ctx, h); err == nil && !c.IsEmpty() {
				known[h] = c
			}
		}
	}
	walk := types.WalkAddrsForNBF(types.Format_DOLT, nil)
	scanned, fields := 0, 0
	for xh, xc := range known {
		fid := serial.GetFileID(xc.Data())
		if !c09ScanKinds[fid] {
			continue
		}
		scanned++
		reported := map[hash.Hash]bool{}
		if err := walk(xc, func(a hash.Hash, _ bool) error { reported[a] = true; return nil }); err != nil {
			t.Fatalf("walking %s chunk %s: %v", fid, xh, err)
		}
		for a := range known {
			if a == xh || !bytes.Contains(xc.Data(), a[:]) {
				continue
			}
			fields++
			if reported[a] {
				continue
			}
			if fld, isKnown := w.knownFieldAddrs[a]; isKnown && skipKnown && fid == serial.WorkingSetFileID {
				_ = fld
				continue // excluded: field of the open known finding
			}
			t.Fatalf("%s chunk %s contains the address %s (a %s chunk; field %q) but the reference walker does not report it for that chunk\nshape: %s",
				fid, xh, a, serial.GetFileID(known[a].Data()), w.knownFieldAddrs[a], sh)
		}
	}
	rec.Evals(len(recCS.reads) + fields)
	rec.Excluded(sh.excludedCnt)
	cl := []string{fmt.Sprintf("ws_merge=%s", []string{"none", "merge", "cherry-pick", "revert"}[sh.mergeKind])}
	if sh.rebase {
		cl = append(cl, "ws_rebase_state")
	}
	if sh.preHead {
		cl = append(cl, "ws_pre_merge_head")
	}
	if sh.nMerges > 0 {
		cl = append(cl, "merge_commit_with_closure")
	}
	if sh.nTags > 0 {
		cl = append(cl, "tag")
	}
	if sh.nStashes > 0 {
		cl = append(cl, "stash")
	}
	if sh.tablesInCm+sh.tablesInWs > 0 {
		cl = append(cl, "tables")
		if sh.nIdx > 0 {
			cl = append(cl, "secondary_indexes")
		}
	}
	if sh.fk && sh.tablesInCm >= 2 {
		cl = append(cl, "fk_collection")
	}
	nt := sh.mergeKind != 0 || sh.rebase || sh.nMerges > 0 || sh.nTags > 0 || sh.nStashes > 0 || (sh.tablesInCm+sh.tablesInWs > 0 && sh.nIdx > 0) || (sh.fk && sh.tablesInCm >= 2)
	rec.Class("chunks_scanned", scanned)
	rec.Class("address_occurrences_checked", fields)
	rec.Case(sh.String(), nt, cl...)
}

// c09Pinned is the minimal reproduction of finding C09-ws-state-addrs: a working set whose
// rebase state and merge state point at objects nothing else references. Returns the fields
// the walker fails to report for the working-set chunk.
func c09Pinned(t *testing.T) (missing []string, detail string) {
	ctx := context.Background()
	var out []string
	var det string
	func(rt *testing.T) {
		w := &c09World{storage: &chunks.TestStorage{}, knownFieldAddrs: map[hash.Hash]string{}}
		var err error
		if w.ddb, err = doltdb.DoltDBFromCS(w.storage.NewViewWithDefaultFormat(), "verif"); err != nil {
			rt.Fatalf("DoltDBFromCS: %v", err)
		}
		w.headRt = w.uniqueRoot(rt, ctx, 0, 0, false)
		if w.headRt, _, err = w.ddb.WriteRootValue(ctx, w.headRt); err != nil {
			rt.Fatalf("WriteRootValue: %v", err)
		}
		if w.head, err = w.ddb.CommitValue(ctx, ref.NewBranchRef("main"), w.headRt.NomsValue(), datas.CommitOptions{Meta: verifMeta(0)}); err != nil {
			rt.Fatalf("CommitValue: %v", err)
		}
		from := w.danglingCommit(rt, ctx, []*doltdb.Commit{w.head}, 0, 0, false)
		pre := w.danglingCommit(rt, ctx, []*doltdb.Commit{w.head}, 0, 0, false)
		onto := w.danglingCommit(rt, ctx, []*doltdb.Commit{w.head}, 0, 0, false)
		prev := w.uniqueRoot(rt, ctx, 0, 0, false)
		_, prevAddr, err := w.ddb.WriteRootValue(ctx, prev)
		if err != nil {
			rt.Fatalf("WriteRootValue: %v", err)
		}
		wsRef, _ := ref.WorkingSetRefForHead(ref.NewBranchRef("main"))
		ws := doltdb.EmptyWorkingSet(wsRef).WithWorkingRoot(w.uniqueRoot(rt, ctx, 0, 0, false)).StartCherryPick(pre, from, "feature")
		if ws, err = ws.StartRebase(sql.NewEmptyContext(), onto, "main", prev, doltdb.EmptyCommitHandling(0), doltdb.EmptyCommitHandling(0), false); err != nil {
			rt.Fatalf("StartRebase: %v", err)
		}
		ws = ws.WithWorkingRoot(w.uniqueRoot(rt, ctx, 0, 0, false)).WithStagedRoot(w.uniqueRoot(rt, ctx, 0, 0, false))
		if err := w.ddb.UpdateWorkingSet(ctx, wsRef, ws, hash.Hash{}, &datas.WorkingSetMeta{Name: "verif", Email: "verif@example.com", Description: "ws", Timestamp: 1000}, nil); err != nil {
			rt.Fatalf("UpdateWorkingSet: %v", err)
		}
		loaded, err := w.ddb.ResolveWorkingSet(ctx, wsRef)
		if err != nil {
			rt.Fatalf("ResolveWorkingSet: %v", err)
		}
		wsAddr, _ := loaded.HashOf()
		c, err := w.storage.NewViewWithDefaultFormat().Get(ctx, wsAddr)
		if err != nil || c.IsEmpty() {
			rt.Fatalf("working set chunk %s not in the store: %v", wsAddr, err)
		}
		reported := map[hash.Hash]bool{}
		if err := types.WalkAddrsForNBF(types.Format_DOLT, nil)(c, func(a hash.Hash, _ bool) error { reported[a] = true; return nil }); err != nil {
			rt.Fatalf("walk: %v", err)
		}
		preA, _ := pre.HashOf()
		ontoA, _ := onto.HashOf()
		fromA, _ := from.HashOf()
		if !reported[fromA] {
			rt.Fatalf("merge_state.from_commit_addr is not reported either")
		}
		for _, f := range []struct {
			name string
			a    hash.Hash
		}{{"rebase_state.pre_working_root_addr", prevAddr}, {"rebase_state.onto_commit_addr", ontoA}, {"merge_state.pre_merge_head_commit_addr", preA}} {
			if !bytes.Contains(c.Data(), f.a[:]) {
				rt.Fatalf("field %s (%s) is not in the working set chunk", f.name, f.a)
			}
			if !reported[f.a] {
				out = append(out, f.name)
			}
		}
		// and the consequence: a store that holds exactly what the walker reaches cannot load it
		reach, _ := c09Reachable(rt, ctx, w.storage.NewViewWithDefaultFormat())
		var unreachable []string
		for _, f := range []struct {
			name string
			a    hash.Hash
		}{{"rebase_state.pre_working_root_addr", prevAddr}, {"rebase_state.onto_commit_addr", ontoA}, {"merge_state.pre_merge_head_commit_addr", preA}} {
			if _, ok := reach[f.a]; !ok {
				unreachable = append(unreachable, f.name)
			}
		}
		det = fmt.Sprintf(`{"object":"WorkingSet chunk %s","built_by":"EmptyWorkingSet.StartCherryPick(preMergeHead, from).StartRebase(onto, prevRoot) + DoltDB.UpdateWorkingSet, every commit/root referenced from nowhere else","walker":"types.WalkAddrsForNBF","fields_in_chunk_not_reported":%q,"unreachable_from_store_root_but_read_by_ResolveWorkingSet":%q}`, wsAddr, out, unreachable)
	}(t)
	return out, det
}

func TestVerif_C09(t *testing.T) {
	rec := vh.NewRecorder("C09", "walker", "exploration", c09Rule,
		"kinds built: store root, working set (all state variants), commit (1-3 parents, closure), tag, stash list + stash, root value (tables, FK collection), table (schema, primary index, secondary index set), address map, commit closure; not built: table conflicts/violations/artifacts, statistics, populated prolly/blob nodes (tables are empty)",
		"the scan treats any occurrence of a known chunk address in the bytes of a working-set/commit/tag/stash/stash-list/root-value/table/store-root chunk as an address field (closure and prolly nodes, whose keys legitimately contain addresses, are not scanned)",
		"working-set string fields holding commit hashes in text form (pending_commit_hashes, from_commit_spec_str) are not treated as addresses")
	defer rec.Write(t)
	open := vh.OpenFinding("C09", c09FindingID)
	t.Run("pinned_ws_state_addrs", func(t *testing.T) {
		missing, detail := c09Pinned(t)
		if t.Failed() || len(missing) == 0 {
			return // harness trouble is reported by rapid; no missing field = the defect is gone
		}
		if open {
			vh.ReportKnown("C09", c09FindingID, fmt.Sprintf("SerialMessage.WalkAddrs omits %v of a working set", missing))
			return
		}
		vh.NoteViolation(t.Name(), "", detail)
		t.Errorf("the reference walker does not report %v of a working set chunk: %s", missing, detail)
	})
	vh.Check(t, "walker", 3000, 1200, func(rt *rapid.T) { c09Case(rt, rec, open) })
	c09NodesTest(t)
}
