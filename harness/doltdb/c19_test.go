package doltdb_test

// C19 (doltdb half) - merge bases, ancestor specs and fast-forward checks resolve as the
// commit graph dictates.
//
// On a generated commit DAG: every ordered pair goes through doltdb.GetCommitAncestor and
// Commit.CanFastForwardTo, branch heads through DoltDB.CanFastForward, and generated commit
// specs (branch / qualified ref / tag / hash / HEAD + ancestor chains, in and out of range)
// through NewCommitSpec + Resolve. Oracle: brute force on the harness' adjacency lists.

import (
	"context"
	"errors"
	"fmt"
	"math/bits"
	"sort"
	"strings"
	"testing"

	"pgregory.net/rapid"

	"github.com/dolthub/dolt/go/libraries/doltcore/doltdb"
	"github.com/dolthub/dolt/go/libraries/doltcore/ref"
	"github.com/dolthub/dolt/go/store/hash"
	"github.com/dolthub/dolt/go/zzverif/vh"
)

const c19DoltdbRule = "commit DAGs as in C18 built through DoltDB (in-memory or file-backed, with re-opens), branches and tags on drawn commits. (1) EVERY ordered pair (a,b): doltdb.GetCommitAncestor -> member of the brute-force set of maximal-height common ancestors, ErrNoCommonAncestor <=> no common ancestor, same answer for (b,a) and on a second call; Commit.CanFastForwardTo(a->b) == (true,nil) iff a is a proper ancestor of b, (true,ErrUpToDate) iff a==b, (false,ErrIsAhead) iff b is a proper ancestor of a, (false,nil) iff diverged with a common ancestor, error iff no common ancestor. (2) DoltDB.CanFastForward(branch, commit) for every branch x commit, missing branch => true. (3) 12-30 commit specs per DAG: base in {branch, heads/<b>, refs/heads/<b>, tag, tags/<t>, full hash, HEAD/head with a current branch} + chains of 0-4 of {~, ~n, ^, ^1, ^2} with n in and out of range; Resolve == manual parent walk on the model (~n = n first-parent steps, ^k = k-th parent), error <=> the walk leaves the graph. Recorded cases: up to 8 non-trivial pairs per DAG (tie of maximal ancestors / no common ancestor) and every spec whose chain mixes ~ and ^ over a merge commit; non-trivial as stated; distinct by (dag, pair) or (dag, refs, spec)."

// c19Walk applies parent-index instructions to commit i on the model; ok=false when a step
// leaves the graph.
func c19Walk(d *verifDag, i int, steps []int) (int, bool) {
	for _, s := range steps {
		if s >= len(d.parents[i]) {
			return -1, false
		}
		i = d.parents[i][s]
	}
	return i, true
}

type c19Spec struct {
	text   string
	base   int   // model commit the base names
	steps  []int // parent indices
	cwb    ref.DoltRef
	merges bool // the walk passes through (or starts at) a commit with >= 2 parents
	mixed  bool // chain has both ~ and ^
}

// c19GenChain draws an ancestor chain and returns its text and its parent-index steps.
func c19GenChain(t *rapid.T, label string, maxDepth int) (string, []int, bool) {
	var b strings.Builder
	var steps []int
	tilde, caret := false, false
	n := rapid.IntRange(0, 4).Draw(t, label+".len")
	for k := 0; k < n; k++ {
		switch rapid.IntRange(0, 5).Draw(t, fmt.Sprintf("%s.op%d", label, k)) {
		case 0:
			b.WriteString("~")
			steps = append(steps, 0)
			tilde = true
		case 1:
			// ~n: mostly within the depth of the history, sometimes beyond, sometimes 0
			m := rapid.IntRange(0, maxDepth+2).Draw(t, fmt.Sprintf("%s.n%d", label, k))
			fmt.Fprintf(&b, "~%d", m)
			for j := 0; j < m; j++ {
				steps = append(steps, 0)
			}
			tilde = true
		case 2:
			b.WriteString("^")
			steps = append(steps, 0)
			caret = true
		case 3:
			b.WriteString("^1")
			steps = append(steps, 0)
			caret = true
		default:
			b.WriteString("^2")
			steps = append(steps, 1)
			caret = true
		}
	}
	return b.String(), steps, tilde && caret
}

func c19SortedKeys(m map[string]int) []string {
	ks := make([]string, 0, len(m))
	for k := range m {
		ks = append(ks, k)
	}
	sort.Strings(ks)
	return ks
}

func c19GenSpec(t *rapid.T, label string, d *verifDag, r *verifRepo, h []uint64) c19Spec {
	var s c19Spec
	branches, tags := c19SortedKeys(r.branches), c19SortedKeys(r.tags)
	kind := rapid.IntRange(0, 7).Draw(t, label+".base")
	if (kind == 3 || kind == 4) && len(tags) == 0 {
		kind = 5
	}
	base := ""
	switch kind {
	case 0, 1, 2:
		bn := branches[rapid.IntRange(0, len(branches)-1).Draw(t, label+".branch")]
		s.base = r.branches[bn]
		base = []string{bn, "heads/" + bn, "refs/heads/" + bn}[kind]
	case 3, 4:
		tn := tags[rapid.IntRange(0, len(tags)-1).Draw(t, label+".tag")]
		s.base = r.tags[tn]
		base = []string{tn, "tags/" + tn}[kind-3]
	case 5, 6:
		s.base = rapid.IntRange(0, d.n()-1).Draw(t, label+".commit")
		base = r.addrs[s.base].String()
	default:
		bn := branches[rapid.IntRange(0, len(branches)-1).Draw(t, label+".cwb")]
		s.base = r.branches[bn]
		s.cwb = ref.NewBranchRef(bn)
		base = rapid.SampledFrom([]string{"HEAD", "head", "Head"}).Draw(t, label+".headword")
	}
	chain, steps, mixed := c19GenChain(t, label, int(h[s.base]))
	s.text, s.steps, s.mixed = base+chain, steps, mixed
	// does the walk touch a merge commit?
	i := s.base
	for _, st := range steps {
		if len(d.parents[i]) >= 2 {
			s.merges = true
		}
		if st >= len(d.parents[i]) {
			break
		}
		i = d.parents[i][st]
	}
	return s
}

func c19DoltdbCase(t *rapid.T, recPairs, recSpecs *vh.Recorder) {
	ctx := context.Background()
	d := verifGenDag(t, verifMaxCommits())
	fileBacked := rapid.IntRange(0, 7).Draw(t, "fileBacked") == 0
	r := verifBuildRepo(t, ctx, d, fileBacked)
	defer r.close()
	r.putRefs(t, ctx, d)
	if rapid.Bool().Draw(t, "reopenBeforeQueries") {
		r.reopen(t, ctx)
	}
	h, anc := d.heights(), d.ancestors()
	n := d.n()
	dagStr := d.String()
	idx := map[hash.Hash]int{}
	commits := make([]*doltdb.Commit, n)
	for i := range r.addrs {
		idx[r.addrs[i]] = i
		commits[i] = r.commit(t, ctx, i)
	}

	// (1) every ordered pair
	res := make([][]int, n)
	for a := 0; a < n; a++ {
		res[a] = make([]int, n)
		for b := 0; b < n; b++ {
			best, all := verifMaxCommon(anc, h, a, b)
			got := -1
			for rep := 0; rep < 2; rep++ {
				oc, err := doltdb.GetCommitAncestor(ctx, commits[a], commits[b])
				j := -1
				switch {
				case err == nil:
					var known bool
					if j, known = idx[oc.Addr]; !known {
						t.Fatalf("GetCommitAncestor(%d,%d) = %s which is no commit of the graph (dag %s)", a, b, oc.Addr, dagStr)
					}
					if c, ok := oc.ToCommit(); !ok {
						t.Fatalf("GetCommitAncestor(%d,%d) returned a ghost", a, b)
					} else if ch, _ := c.HashOf(); ch != oc.Addr {
						t.Fatalf("GetCommitAncestor(%d,%d): Addr %s but commit %s", a, b, oc.Addr, ch)
					}
				case errors.Is(err, doltdb.ErrNoCommonAncestor):
				default:
					t.Fatalf("GetCommitAncestor(%d,%d): %v (dag %s)", a, b, err, dagStr)
				}
				if (j >= 0) != (all != 0) {
					t.Fatalf("GetCommitAncestor(%d,%d) found=%v but the common-ancestor set is %v (dag %s)", a, b, j >= 0, verifBitsList(all), dagStr)
				}
				if j >= 0 && best&(1<<uint(j)) == 0 {
					t.Fatalf("GetCommitAncestor(%d,%d) = commit %d (height %d); maximal-height common ancestors are %v of %v (dag %s)", a, b, j, h[j], verifBitsList(best), verifBitsList(all), dagStr)
				}
				if rep == 1 && j != got {
					t.Fatalf("GetCommitAncestor(%d,%d) is not repeatable: commit %d then %d (dag %s)", a, b, got, j, dagStr)
				}
				got = j
			}
			res[a][b] = got

			// fast-forward a -> b
			ok, err := commits[a].CanFastForwardTo(ctx, commits[b])
			aAncB := anc[b]&(1<<uint(a)) != 0
			bAncA := anc[a]&(1<<uint(b)) != 0
			switch {
			case a == b:
				if !ok || err != doltdb.ErrUpToDate {
					t.Fatalf("CanFastForwardTo(%d->%d same commit) = %v,%v want true,ErrUpToDate", a, b, ok, err)
				}
			case aAncB:
				if !ok || err != nil {
					t.Fatalf("CanFastForwardTo(%d->%d, head is an ancestor of the target) = %v,%v want true,nil (dag %s)", a, b, ok, err, dagStr)
				}
			case bAncA:
				if ok || err != doltdb.ErrIsAhead {
					t.Fatalf("CanFastForwardTo(%d->%d, target is an ancestor of head) = %v,%v want false,ErrIsAhead (dag %s)", a, b, ok, err, dagStr)
				}
			case all != 0:
				if ok || err != nil {
					t.Fatalf("CanFastForwardTo(%d->%d, diverged) = %v,%v want false,nil (dag %s)", a, b, ok, err, dagStr)
				}
			default:
				if ok || err == nil {
					t.Fatalf("CanFastForwardTo(%d->%d, no common ancestor) = %v,%v want false and an error (dag %s)", a, b, ok, err, dagStr)
				}
			}
		}
	}
	for a := 0; a < n; a++ {
		for b := a + 1; b < n; b++ {
			if res[a][b] != res[b][a] {
				t.Fatalf("GetCommitAncestor depends on argument order: (%d,%d) -> commit %d, (%d,%d) -> commit %d (dag %s)", a, b, res[a][b], b, a, res[b][a], dagStr)
			}
		}
	}
	c19RecordPairs(recPairs, d, dagStr, d.stats().classes(), h, anc)

	// (2) DoltDB.CanFastForward over branch heads
	branches := c19SortedKeys(r.branches)
	for _, bn := range branches {
		a := r.branches[bn]
		for b := 0; b < n; b++ {
			ok, err := r.ddb.CanFastForward(ctx, ref.NewBranchRef(bn), commits[b])
			_, all := verifMaxCommon(anc, h, a, b)
			want := a == b || anc[b]&(1<<uint(a)) != 0
			if ok != want {
				t.Fatalf("CanFastForward(branch %s at commit %d -> commit %d) = %v,%v want %v (dag %s)", bn, a, b, ok, err, want, dagStr)
			}
			if (all == 0) != (err != nil && err != doltdb.ErrUpToDate && err != doltdb.ErrIsAhead) {
				t.Fatalf("CanFastForward(branch %s at commit %d -> commit %d): err %v, common ancestors %v", bn, a, b, err, verifBitsList(all))
			}
		}
	}
	if ok, err := r.ddb.CanFastForward(ctx, ref.NewBranchRef("no-such-branch"), commits[0]); !ok || err != nil {
		t.Fatalf("CanFastForward(missing branch) = %v,%v want true,nil", ok, err)
	}
	recPairs.Evals(len(branches)*n + 1)

	// (3) commit specs
	refsStr := fmt.Sprintf("branches %v tags %v", r.branches, r.tags)
	nSpecs := rapid.IntRange(12, 30).Draw(t, "nSpecs")
	for k := 0; k < nSpecs; k++ {
		s := c19GenSpec(t, fmt.Sprintf("spec%d", k), d, r, h)
		want, inGraph := c19Walk(d, s.base, s.steps)
		cs, err := doltdb.NewCommitSpec(s.text)
		if err != nil {
			t.Fatalf("NewCommitSpec(%q): %v", s.text, err)
		}
		oc, err := r.ddb.Resolve(ctx, cs, s.cwb)
		if inGraph {
			if err != nil {
				t.Fatalf("Resolve(%q): %v; the walk from commit %d by %v ends at commit %d (dag %s; %s)", s.text, err, s.base, s.steps, want, dagStr, refsStr)
			}
			if oc.Addr != r.addrs[want] {
				t.Fatalf("Resolve(%q) = commit %d (%s); the walk from commit %d by %v ends at commit %d (dag %s; %s)", s.text, idx[oc.Addr], oc.Addr, s.base, s.steps, want, dagStr, refsStr)
			}
			if c, ok := oc.ToCommit(); !ok {
				t.Fatalf("Resolve(%q) returned a ghost", s.text)
			} else if ch, _ := c.HashOf(); ch != oc.Addr {
				t.Fatalf("Resolve(%q): Addr %s but commit %s", s.text, oc.Addr, ch)
			}
		} else if err == nil {
			t.Fatalf("Resolve(%q) = commit %d although the walk from commit %d by %v leaves the graph (dag %s; %s)", s.text, idx[oc.Addr], s.base, s.steps, dagStr, refsStr)
		}
		cl := []string{"spec:in_graph"}
		if !inGraph {
			cl[0] = "spec:leaves_graph"
		}
		if s.cwb != nil {
			cl = append(cl, "spec:HEAD")
		}
		if len(s.steps) == 0 {
			cl = append(cl, "spec:no_walk")
		}
		recSpecs.Case(fmt.Sprintf("%s | %s | %s", dagStr, refsStr, s.text), s.mixed && s.merges, cl...)
	}
}

// c19RecordPairs: as in the datas half - all pairs counted, up to 8 non-trivial ones per DAG
// recorded as cases.
func c19RecordPairs(rec *vh.Recorder, d *verifDag, dagStr string, dagClasses []string, h, anc []uint64) {
	n := d.n()
	recorded := 0
	counts := map[string]int{}
	for a := 0; a < n; a++ {
		for b := 0; b < n; b++ {
			best, all := verifMaxCommon(anc, h, a, b)
			cl, nt := "", false
			switch {
			case all == 0:
				cl, nt = "pair:no_common_ancestor", true
			case bits.OnesCount64(best) >= 2:
				cl, nt = "pair:tie_of_maximal_ancestors", true
			case a == b:
				cl = "pair:same_commit"
			case best == 1<<uint(a) || best == 1<<uint(b):
				cl = "pair:one_is_ancestor"
			default:
				cl = "pair:diverged_single_base"
			}
			counts[cl]++
			if nt && recorded < 8 && (a*7+b*3)%5 != 0 {
				recorded++
				rec.Case(fmt.Sprintf("%s | pair (%d,%d) maximal common ancestors %v", dagStr, a, b, verifBitsList(best)), true, cl)
				counts[cl]--
			}
		}
	}
	for _, k := range []string{"pair:no_common_ancestor", "pair:tie_of_maximal_ancestors", "pair:same_commit", "pair:one_is_ancestor", "pair:diverged_single_base"} {
		if counts[k] > 0 {
			rec.Class(k, counts[k])
		}
	}
	cl := []string{"dags"}
	for _, c := range dagClasses {
		cl = append(cl, "dag:"+c)
	}
	rec.Case(dagStr, false, cl...)
	rec.Evals(3*n*n - recorded - 1)
}

func TestVerif_C19(t *testing.T) {
	recPairs := vh.NewRecorder("C19", "doltdb-pairs", "exploration", c19DoltdbRule,
		"GetCommitAncestor is compared with the set of maximal-height common ancestors (its tie-break is not part of the property)",
		"^k is only generated for k in {1,2}: NewAncestorSpec documents (isValidMergeSpec) that other k are rejected; octopus commits' third parents are reached by no spec")
	recSpecs := vh.NewRecorder("C19", "doltdb-specs", "exploration", c19DoltdbRule,
		"spec bases are names the harness created (branches, tags) or full hashes of graph commits; HEAD is resolved against an explicit current branch")
	defer recPairs.Write(t)
	defer recSpecs.Write(t)
	vh.Check(t, "graph", 500, 80, func(rt *rapid.T) { c19DoltdbCase(rt, recPairs, recSpecs) })
}
