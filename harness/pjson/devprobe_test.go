package tree

import (
	"context"
	"encoding/json"
	"fmt"
	"os"
	"testing"

	"github.com/dolthub/go-mysql-server/sql"
	"github.com/dolthub/go-mysql-server/sql/types"
)

func TestVerifDev_Probe(t *testing.T) {
	if os.Getenv("VERIF_PROBE") == "" {
		t.Skip()
	}
	ctx := sql.NewEmptyContext()
	ns := NewTestNodeStore()
	stats := map[string]int{}
	for l := 20; l < 400; l++ {
		n := 12000 / (2*l + 30)
		a := make([]interface{}, n)
		for i := range a {
			a[i] = map[string]interface{}{"a": c17Pad(l), "b": []interface{}{c17Pad(l / 2), float64(i), []interface{}{c17Pad(l / 3)}}}
		}
		d, _ := verifJStore(ctx, ns, a)
		stats[fmt.Sprintf("chunks=%d", verifJChunks(d.m.Root))]++
		for _, idx := range []int{1, n / 2} {
			r, ch, err := d.Clone(ctx).(types.MutableJSON).Remove(ctx, fmt.Sprintf("$[%d]", idx))
			if err != nil || !ch {
				stats["err"]++
				continue
			}
			ri := r.(IndexedJsonDocument)
			v, _ := verifJInterface(ctx, ri)
			fresh, _ := verifJStore(ctx, ns, v)
			if fresh.m.Root.HashOf() == ri.m.Root.HashOf() {
				stats["canonical"]++
			} else {
				stats["noncanonical"]++
				if bad := verifJCheckIndex(ctx, ns, ri.m.Root, true); bad != "" {
					stats["badindex"]++
					if stats["badindex"] < 3 {
						fmt.Println(l, idx, bad)
					}
				}
			}
		}
	}
	fmt.Println(stats)
}

func TestVerifDev_Probe2(t *testing.T) {
	p := os.Getenv("VERIF_PROBE2")
	if p == "" {
		t.Skip()
	}
	b, _ := os.ReadFile(p)
	var cf c17CaseFile
	_ = json.Unmarshal(b, &cf)
	var doc interface{}
	_ = json.Unmarshal(cf.Doc, &doc)
	ctx := sql.NewEmptyContext()
	ns := NewTestNodeStore()
	d, _ := verifJStore(ctx, ns, doc)
	dump := func(name string, d IndexedJsonDocument) {
		off := 0
		_ = d.m.WalkNodes(ctx, func(ctx context.Context, n *Node) error {
			if n.Level() >= 1 {
				for i := 0; i < n.Count(); i++ {
					k := n.GetKey(i)
					fmt.Printf("   %s level %d key %d: state=%d path=%s\n", name, n.Level(), i, k[0], MySqlJsonPathFromKey(k))
				}
			} else {
				v := n.GetValue(0)
				off += len(v)
				fmt.Printf("   %s   leaf %d bytes (ends at %d) %s: …%s\n", name, len(v), off, n.HashOf().String()[:8], v[max(0, len(v)-30):])
			}
			return nil
		})
	}
	dump("orig   ", d)
	op := cf.Ops[len(cf.Ops)-1]
	r, _, err := d.Clone(ctx).(types.MutableJSON).Remove(ctx, op.Path)
	if err != nil {
		t.Fatal(err)
	}
	ri := r.(IndexedJsonDocument)
	dump("mutated", ri)
	v, _ := verifJInterface(ctx, ri)
	fresh, _ := verifJStore(ctx, ns, v)
	dump("fresh  ", fresh)
}

func TestVerifDev_Probe3(t *testing.T) {
	if os.Getenv("VERIF_PROBE3") == "" {
		t.Skip()
	}
	ctx := sql.NewEmptyContext()
	ns := NewTestNodeStore()
	for l := 150; l < 700; l += 10 {
		n := 40
		a := make([]interface{}, n)
		for i := range a {
			a[i] = fmt.Sprintf("%03d%s", i, c17Pad((i*i*37+l*13)%900+20))
		}
		d, _ := verifJStore(ctx, ns, a)
		root := d.m.Root
		fmt.Println("n", n, "chunks", verifJChunks(root), "level", root.Level())
		for c := 0; c < root.Count()-1; c++ {
			loc := jsonPathFromKey(root.GetKey(c))
			if loc.size() != 1 {
				continue
			}
			bi := int(loc.getPathElement(0).getArrayIndex())
			for _, idx := range []int{bi - 2, bi - 1, bi} {
				if idx < 0 {
					continue
				}
				r, ch, err := d.Clone(ctx).(types.MutableJSON).Remove(ctx, fmt.Sprintf("$[%d]", idx))
				if err != nil || !ch {
					continue
				}
				if bad := verifJCheckIndex(ctx, ns, r.(IndexedJsonDocument).m.Root, true); bad != "" {
					fmt.Println("  n", n, "boundary", c, "at", bi, "state", root.GetKey(c)[0], "remove", idx, "->", bad)
				}
			}
		}
	}
}
