package tree

// Shared JSON generators and helpers of the pjson engine (C17 document operations, C16 tree half).
//
// Values are plain Go JSON values exactly as encoding/json produces them (nil, bool, float64,
// string, []interface{}, map[string]interface{}): that is what go-mysql-server's
// types.JSON.Convert hands to dolt for every JSON text written through SQL.

import (
	"bytes"
	"context"
	"encoding/json"
	"fmt"
	"hash/fnv"
	"io"
	"regexp"
	"sort"
	"strings"

	"github.com/dolthub/go-mysql-server/sql"
	"github.com/dolthub/go-mysql-server/sql/types"
	"pgregory.net/rapid"
)

// verifJKeys is the key alphabet: shared prefixes (a, ab, abc, a.b …) so that sibling order and
// location-prefix logic matter, keys that need quoting in a path (space, dot, quote, non-ASCII).
var verifJKeys = []string{"a", "ab", "b", "abc", "a.b", "a b", `a"b`, "é", "k", "kk", "c", "d", "a0", "B", "_x", "z"}

// verifJPieces are building blocks of string values: JSON structural characters, quotes,
// backslashes (also as last character), escapes, multi-byte runes, HTML characters.
var verifJPieces = []string{"", "x", "dolt", `q"q`, `b\s`, "é", "日本語", "<&>", "\n", "\u0001", `<`, `end\`, `",`, "}", "]", ":", "{[", " ", "😀", " ", "0", `\"`, "\t/"}

var verifJNumbers = []float64{0, 1, -1, 2, 10, 1.5, -0.25, 1e21, 123456789, 1e-7, 3.141592653589793, 9007199254740992, -2147483648}

type verifJGen struct {
	keys     []string
	maxDepth int
	maxWidth int
	padProb  int // percent of strings that are long
	padMin   int
	padMax   int
}

func (g verifJGen) str(t *rapid.T) string {
	if g.padProb > 0 && rapid.IntRange(0, 99).Draw(t, "pad?") < g.padProb {
		n := rapid.IntRange(g.padMin, g.padMax).Draw(t, "padlen")
		piece := rapid.SampledFrom([]string{"p", "lorem ipsum ", `\"`, "é", "0123456789"}).Draw(t, "padpiece")
		var b strings.Builder
		for b.Len() < n {
			b.WriteString(piece)
		}
		return b.String()
	}
	n := rapid.IntRange(0, 3).Draw(t, "npieces")
	var b strings.Builder
	for i := 0; i < n; i++ {
		b.WriteString(rapid.SampledFrom(verifJPieces).Draw(t, "piece"))
	}
	return b.String()
}

func (g verifJGen) scalar(t *rapid.T) interface{} {
	switch k := rapid.IntRange(0, 7).Draw(t, "scalar"); {
	case k == 0:
		return nil
	case k == 1:
		return rapid.Bool().Draw(t, "bool")
	case k <= 3:
		return rapid.SampledFrom(verifJNumbers).Draw(t, "num")
	default:
		return g.str(t)
	}
}

func (g verifJGen) key(t *rapid.T) string {
	return rapid.SampledFrom(g.keys).Draw(t, "key")
}

func (g verifJGen) object(t *rapid.T, depth, minW int) map[string]interface{} {
	n := rapid.IntRange(minW, max(minW, g.maxWidth)).Draw(t, "nkeys")
	m := make(map[string]interface{}, n)
	for i := 0; i < n; i++ {
		k := g.key(t)
		if _, dup := m[k]; dup && len(g.keys) < 40 {
			// widen the alphabet deterministically instead of dropping the member
			k = fmt.Sprintf("%s%d", k, i)
		}
		m[k] = g.value(t, depth+1)
	}
	return m
}

func (g verifJGen) array(t *rapid.T, depth, minW int) []interface{} {
	n := rapid.IntRange(minW, max(minW, g.maxWidth)).Draw(t, "nelems")
	a := make([]interface{}, n)
	for i := range a {
		a[i] = g.value(t, depth+1)
	}
	return a
}

func (g verifJGen) value(t *rapid.T, depth int) interface{} {
	k := rapid.IntRange(0, 9).Draw(t, "kind")
	if depth >= g.maxDepth && k >= 6 {
		k -= 6
	}
	switch {
	case k < 6:
		return g.scalar(t)
	case k < 8:
		return g.object(t, depth, 0)
	default:
		return g.array(t, depth, 0)
	}
}

// verifJDoc draws a document of one of three size classes: tiny (fits one chunk by far), mid,
// large (padded with long strings so that it spans several chunks).
func verifJDoc(t *rapid.T, keys []string) (doc interface{}, class string) {
	switch c := rapid.IntRange(0, 9).Draw(t, "sizeclass"); {
	case c < 1:
		g := verifJGen{keys: keys, maxDepth: 4, maxWidth: 4}
		return g.value(t, 0), "tiny"
	case c < 3:
		g := verifJGen{keys: keys, maxDepth: 5, maxWidth: 6, padProb: 25, padMin: 20, padMax: 200}
		if rapid.Bool().Draw(t, "topobj") {
			return g.object(t, 0, 1), "mid"
		}
		return g.array(t, 0, 1), "mid"
	default:
		g := verifJGen{keys: keys, maxDepth: 5, maxWidth: 5, padProb: 55, padMin: 150, padMax: 1200}
		n := rapid.IntRange(6, 40).Draw(t, "ntop")
		if rapid.Bool().Draw(t, "topobj") {
			m := make(map[string]interface{})
			for i := 0; i < n; i++ {
				k := g.key(t)
				if _, dup := m[k]; dup {
					k = fmt.Sprintf("%s%d", k, i)
				}
				m[k] = g.value(t, 1)
			}
			return m, "large"
		}
		a := make([]interface{}, n)
		for i := range a {
			a[i] = g.value(t, 1)
		}
		return a, "large"
	}
}

// ---------------------------------------------------------------------------------------------
// paths

type verifJLeg struct {
	key   string
	idx   int
	isIdx bool
	raw   string // if set, rendered verbatim inside [] (last, last-1 …)
	quote bool   // force quoting of an identifier-like key
}

var verifJIdent = regexp.MustCompile(`^[A-Za-z_][A-Za-z0-9_]*$`)

func verifJRenderPath(legs []verifJLeg) string {
	var b strings.Builder
	b.WriteByte('$')
	for _, l := range legs {
		switch {
		case l.raw != "":
			fmt.Fprintf(&b, "[%s]", l.raw)
		case l.isIdx:
			fmt.Fprintf(&b, "[%d]", l.idx)
		case verifJIdent.MatchString(l.key) && !l.quote:
			b.WriteByte('.')
			b.WriteString(l.key)
		default:
			b.WriteString(`."`)
			b.WriteString(strings.ReplaceAll(l.key, `"`, `\"`))
			b.WriteByte('"')
		}
	}
	return b.String()
}

func verifJSortedKeys(m map[string]interface{}) []string {
	ks := make([]string, 0, len(m))
	for k := range m {
		ks = append(ks, k)
	}
	sort.Strings(ks)
	return ks
}

// verifJWalk picks a path to an existing location by a random walk from the root.
func verifJWalk(t *rapid.T, doc interface{}, maxLegs int) (legs []verifJLeg, at interface{}) {
	at = doc
	for len(legs) < maxLegs {
		switch v := at.(type) {
		case map[string]interface{}:
			if len(v) == 0 || rapid.IntRange(0, 9).Draw(t, "stop") == 0 {
				return legs, at
			}
			ks := verifJSortedKeys(v)
			k := ks[rapid.IntRange(0, len(ks)-1).Draw(t, "member")]
			legs = append(legs, verifJLeg{key: k})
			at = v[k]
		case []interface{}:
			if len(v) == 0 || rapid.IntRange(0, 9).Draw(t, "stop") == 0 {
				return legs, at
			}
			i := rapid.IntRange(0, len(v)-1).Draw(t, "elem")
			legs = append(legs, verifJLeg{idx: i, isIdx: true})
			at = v[i]
		default:
			return legs, at
		}
	}
	return legs, at
}

// ---------------------------------------------------------------------------------------------
// helpers

func verifJMarshal(v interface{}) []byte {
	b, err := types.MarshallJsonValue(v)
	if err != nil {
		panic(err)
	}
	return b
}

func verifJHash(b []byte) uint64 {
	h := fnv.New64a()
	_, _ = h.Write(b)
	return h.Sum64()
}

// verifJStore serializes v the way PutField does for a JSON address column.
func verifJStore(ctx context.Context, ns NodeStore, v interface{}) (IndexedJsonDocument, error) {
	root, err := SerializeJsonToAddr(ctx, ns, types.JSONDocument{Val: types.DeepCopyJson(v)})
	if err != nil {
		return IndexedJsonDocument{}, err
	}
	return NewIndexedJsonDocument(root, ns), nil
}

func verifJChunks(root *Node) int {
	if root.Level() == 0 {
		return 1
	}
	return root.Count()
}

// verifJEqual is structural equality of two decoded JSON values (numbers as float64).
func verifJEqual(a, b interface{}) bool {
	switch x := a.(type) {
	case nil:
		return b == nil
	case bool:
		y, ok := b.(bool)
		return ok && x == y
	case float64:
		y, ok := b.(float64)
		return ok && x == y
	case string:
		y, ok := b.(string)
		return ok && x == y
	case []interface{}:
		y, ok := b.([]interface{})
		if !ok || len(x) != len(y) {
			return false
		}
		for i := range x {
			if !verifJEqual(x[i], y[i]) {
				return false
			}
		}
		return true
	case map[string]interface{}:
		y, ok := b.(map[string]interface{})
		if !ok || len(x) != len(y) {
			return false
		}
		for k, xv := range x {
			yv, ok := y[k]
			if !ok || !verifJEqual(xv, yv) {
				return false
			}
		}
		return true
	default:
		return false
	}
}

// verifJNormalize re-decodes any JSON wrapper's value through its marshalled text so that number
// types are uniform (float64) before structural comparison.
func verifJInterface(ctx context.Context, w sql.JSONWrapper) (interface{}, error) {
	v, err := w.ToInterface(ctx)
	if err != nil {
		return nil, err
	}
	b, err := types.MarshallJsonValue(v)
	if err != nil {
		return nil, err
	}
	var out interface{}
	dec := json.NewDecoder(bytes.NewReader(b))
	if err := dec.Decode(&out); err != nil {
		return nil, err
	}
	return out, nil
}

func verifJShort(b []byte) string {
	if len(b) <= 160 {
		return string(b)
	}
	return fmt.Sprintf("%s…(%d bytes)…%s", b[:80], len(b), b[len(b)-60:])
}

// verifJCheckIndex validates the structural invariant JsonChunker documents for a stored JSON
// document: every key of an address-map node is the location at which the span of its child
// ends (json_chunker.go: "Each key is a jsonLocation corresponding to the end of the span
// represented by the child node"). Lookups and mutations seek by these keys, so a document whose
// keys do not describe its text answers later operations wrongly. It returns "" or a description
// of the first inconsistent key. arrayEdgeOK accepts the one inconsistency every freshly
// serialized document can have (a chunk ending right after '[' is keyed with the start of
// element 0, which a reader only reaches in the next chunk).
func verifJCheckIndex(ctx context.Context, ns NodeStore, root *Node, arrayEdgeOK bool) string {
	if root.Level() == 0 {
		return ""
	}
	sc := ScanJsonFromBeginning(nil)
	first := true
	var problem string
	var walk func(nd *Node) []byte
	walk = func(nd *Node) (lastKey []byte) {
		for i := 0; i < nd.Count() && problem == ""; i++ {
			child, err := fetchChild(ctx, ns, nd.getAddress(i))
			if err != nil {
				problem = err.Error()
				return nil
			}
			key := nd.GetKey(i)
			lastKey = key
			if child.Level() > 0 {
				ck := walk(child)
				if problem == "" && !bytes.Equal(ck, key) {
					problem = fmt.Sprintf("level-%d key %d is %s (state %d) but its subtree ends with key %s (state %d)", nd.Level(), i, MySqlJsonPathFromKey(key), key[0], MySqlJsonPathFromKey(ck), ck[0])
				}
				continue
			}
			text := child.GetValue(0)
			if first {
				sc = ScanJsonFromBeginning(text)
				first = false
			} else {
				sc = ScanJsonFromMiddle(text, sc.currentPath)
			}
			for {
				err := sc.AdvanceToNextLocation()
				if err == io.EOF {
					break
				}
				if err != nil {
					problem = fmt.Sprintf("leaf under key %s does not scan: %v", MySqlJsonPathFromKey(key), err)
					return nil
				}
			}
			if !bytes.Equal(sc.currentPath.key, key) {
				if arrayEdgeOK && len(key) >= 3 && jsonPathType(key[0]) == startOfValue && key[len(key)-2] == beginArrayKey && key[len(key)-1] == 0 &&
					sc.currentPath.getScannerState() == arrayInitialElement && bytes.Equal(sc.currentPath.key[1:], key[1:len(key)-2]) {
					// continue scanning the next leaf from the keyed location
					sc.currentPath = jsonPathFromKey(key)
					continue
				}
				problem = fmt.Sprintf("leaf %d of a level-1 node is keyed %s (state %d) but its text ends at %s (state %d)", i, MySqlJsonPathFromKey(key), key[0], MySqlJsonPathFromKey(sc.currentPath.key), sc.currentPath.key[0])
			}
		}
		return lastKey
	}
	walk(root)
	return problem
}
