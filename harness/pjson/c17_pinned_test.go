package tree

// Pinned reproductions of the C17 findings. Each one searches a small deterministic family of
// documents (sizes are swept because several findings need a chunk boundary at a particular
// place) for an instance on which the stored and the in-memory implementation disagree. While
// the finding is listed as open in known_findings.json the reproduction prints KNOWN-FINDING;
// otherwise a reproducing instance is a VIOLATION.

import (
	"encoding/json"
	"fmt"
	"strings"
	"testing"

	"github.com/dolthub/dolt/go/zzverif/vh"
)

type c17Pin struct {
	id    string
	what  string
	cases func(yield func(doc interface{}, ops ...c17Op) bool)
}

func c17Pad(n int) string { return strings.Repeat("p", n) }

func c17StrArray(n, l int) []interface{} {
	a := make([]interface{}, n)
	for i := range a {
		a[i] = fmt.Sprintf("%03d%s", i, c17Pad(l))
	}
	return a
}

var c17Pins = []c17Pin{
	{c17FLastN, "a [last-N] path leg is rejected with 'Invalid JSON path expression' by the stored document (json_location.go isUnsupportedJsonArrayIndex only knows 'last' and '*'); the in-memory document accepts it",
		func(yield func(interface{}, ...c17Op) bool) {
			_ = yield([]interface{}{1.0, 2.0, 3.0}, c17Op{Kind: "Remove", Path: "$[last-1]"}) &&
				yield([]interface{}{1.0, 2.0, 3.0}, c17Op{Kind: "Lookup", Path: "$[last-1]"}) &&
				yield(map[string]interface{}{"a": []interface{}{1.0, 2.0}}, c17Op{Kind: "Set", Path: "$.a[last-1]", Val: 9.0})
		}},
	{c17FWrapAppend, "Set/Insert at [N>=1] of a non-array that is the document root or an array element is a silent no-op in the stored document (insertIntoCursor only wraps object members); in memory (and in MySQL) the value is wrapped into [old, new]",
		func(yield func(interface{}, ...c17Op) bool) {
			_ = yield(0.0, c17Op{Kind: "Insert", Path: "$[2]", Val: 1.5}) &&
				yield(map[string]interface{}{"a": 1.0}, c17Op{Kind: "Set", Path: "$[1]", Val: 5.0}) &&
				yield([]interface{}{false}, c17Op{Kind: "Insert", Path: "$[0][4]", Val: ""})
		}},
	{c17FEmptyArray, "Set/Insert at an index of an empty array: the stored document panics (index out of range [-1]) when the array is the root and silently does nothing when it is nested; in memory the value is appended",
		func(yield func(interface{}, ...c17Op) bool) {
			_ = yield([]interface{}{}, c17Op{Kind: "Set", Path: "$[0]", Val: 0.0}) &&
				yield(map[string]interface{}{"ab": []interface{}{}}, c17Op{Kind: "Set", Path: "$.ab[0]", Val: 1.5})
		}},
	{c17FMissingIdx, "Set/Insert with a path that continues with an index after a member that does not exist returns the internal error 'JSON cursor in unexpected state. This is likely a bug' from the stored document; in memory there is no error",
		func(yield func(interface{}, ...c17Op) bool) {
			_ = yield(map[string]interface{}{"_x": 1.0}, c17Op{Kind: "Insert", Path: "$.nokey[1]", Val: nil}) &&
				yield(map[string]interface{}{"_x": 1.0}, c17Op{Kind: "Set", Path: "$.nokey[1]", Val: 1.0})
		}},
	{c17FRemoveEdge, "Remove of the first element of an array whose value ends exactly at a leaf chunk boundary keeps the separating comma (removeWithLocation looks for ',' only inside the current chunk): the result text is invalid JSON like \"z\":[,true]",
		func(yield func(interface{}, ...c17Op) bool) {
			for l := 400; l < 1400; l += 7 {
				doc := map[string]interface{}{"k": c17Pad(l), "z": []interface{}{[]interface{}{c17Pad(600)}, true}}
				if !yield(doc, c17Op{Kind: "Remove", Path: "$.z[0]"}) {
					return
				}
			}
		}},
	{c17FArrayEdge, "when a leaf chunk ends right after '[' its key is the start of element 0, which a reader only reaches in the next chunk: Lookup/Set/Insert/Replace/Remove of that element panic with 'Reached the end of the JSON document while advancing' (json_cursor.go AdvanceToLocation), and diffing such a document fails with the 'invalid JSON' error",
		func(yield func(interface{}, ...c17Op) bool) {
			// the boundary decision hashes the location key, so the member name is swept
			for _, l := range []int{700, 1300, 2600} {
				for i := 0; i < 400; i++ {
					name := fmt.Sprintf("z%d", i)
					doc := map[string]interface{}{"k": c17Pad(l), name: []interface{}{nil}}
					if !yield(doc, c17Op{Kind: "Lookup", Path: "$." + name + "[0]"}) {
						return
					}
				}
			}
		}},
	{c17FStaleKeys, "after Insert/Remove of an array element in a multi-chunk document the re-chunking stops at the first old chunk boundary it meets and reuses the following chunks with their old keys, whose array indexes are now off by one; later operations seek by these keys (observed consequence: a later Set dropped ~900 bytes of the document)",
		func(yield func(interface{}, ...c17Op) bool) {
			// root array of strings of irregular lengths; an element in the middle is removed
			for l := 150; l < 700; l += 10 {
				a := make([]interface{}, 40)
				for i := range a {
					a[i] = fmt.Sprintf("%03d%s", i, c17Pad((i*i*37+l*13)%900+20))
				}
				if !yield(a, c17Op{Kind: "Remove", Path: "$[9]"}) || !yield(a, c17Op{Kind: "Insert", Path: "$[17]", Val: "x"}) {
					return
				}
			}
		}},
	{c17FGtLenKeys, "Set/Insert at an index greater than the array length appends the value, but chunk keys written inside or right after the new element carry the requested index instead of the real one (insertIntoCursor sets the scanner path to the user's path)",
		func(yield func(interface{}, ...c17Op) bool) {
			for n := 4; n < 40; n += 2 {
				if !yield(c17StrArray(n, 120), c17Op{Kind: "Insert", Path: fmt.Sprintf("$[%d]", n+3), Val: []interface{}{c17Pad(300), c17Pad(300), c17Pad(300)}}) {
					return
				}
			}
		}},
	{c17FEscapedKey, "member names are ordered by their JSON-escaped text inside the stored document's locations (only \\\" is unescaped), so a member name with a control character or U+2028 sorts differently than in the document: siblings are not found ({\"a\\n\":1,\"aA\":2}: Lookup $.aA finds nothing, Insert $.aB writes the member out of order)",
		func(yield func(interface{}, ...c17Op) bool) {
			_ = yield(map[string]interface{}{"a\n": 1.0, "aA": 2.0}, c17Op{Kind: "Lookup", Path: "$.aA"}) &&
				yield(map[string]interface{}{"a\n": 1.0, "aA": 2.0}, c17Op{Kind: "Insert", Path: "$.aB", Val: 3.0})
		}},
	{c17FEmptyKey, "the path member \"\" ($.\"\") is rejected by the stored document ('Expected field name after .'); in memory (and in MySQL) it names the member with the empty name; an object that has such a member also mis-orders [0] (the empty name sorts before index 0 in compareJsonLocations): Replace($[0],false) on {\"\":[1],\"ab\":2} is a no-op",
		func(yield func(interface{}, ...c17Op) bool) {
			_ = yield(map[string]interface{}{"": 1.0, "ab": 2.0}, c17Op{Kind: "Lookup", Path: `$.""`}) &&
				yield(map[string]interface{}{"": []interface{}{1.0}, "ab": 2.0}, c17Op{Kind: "Replace", Path: "$[0]", Val: false})
		}},
}

// c17Raw switches the stale-key tolerance of c17Apply off (pinned reproductions want the raw answer).
var c17Raw bool

func c17RunPins(t *testing.T) {
	c17Raw = true
	defer func() { c17Raw = false }()
	for _, pin := range c17Pins {
		var repro string
		tried := 0
		pin.cases(func(doc interface{}, ops ...c17Op) bool {
			tried++
			cf := &c17CaseFile{Doc: json.RawMessage(verifJMarshal(doc)), Ops: ops}
			if m := c17RunFile(cf); m != nil {
				repro = m.msg
				if len(repro) > 700 {
					repro = repro[:700] + "…"
				}
				return false
			}
			return true
		})
		if repro == "" {
			t.Logf("pinned %s: not reproduced on %d instances", pin.id, tried)
			continue
		}
		if c17Excluded(pin.id) {
			vh.ReportKnown("C17", pin.id, strings.ReplaceAll(repro, "\n", " "))
			continue
		}
		detail, _ := json.Marshal(map[string]string{"finding": pin.id, "what": pin.what, "reproduction": repro})
		vh.NoteViolation(t.Name()+"/"+pin.id, "", string(detail))
		t.Errorf("pinned %s: %s\n  %s", pin.id, pin.what, repro)
	}
}
