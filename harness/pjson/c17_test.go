package tree

// C17 (document half) — stored JSON documents behave like in-memory JSON.
//
// Differential: every operation of a generated chain is applied to a tree.IndexedJsonDocument
// (built by SerializeJsonToAddr, i.e. what a JSON column read from storage hands to the SQL
// functions) and to go-mysql-server's in-memory types.JSONDocument of the same value.

import (
	"bytes"
	"context"
	"encoding/json"
	"errors"
	"flag"
	"fmt"
	"os"
	"path/filepath"
	"sort"
	"strings"
	"testing"

	"github.com/dolthub/go-mysql-server/sql"
	"github.com/dolthub/go-mysql-server/sql/types"
	"pgregory.net/rapid"

	"github.com/dolthub/dolt/go/zzverif/vh"
)

const c17DocRule = "documents from a grammar of nested objects/arrays/scalars (depth<=6, keys from an alphabet with shared prefixes and keys that need quoting, strings with quotes/backslashes/escapes/multi-byte runes; size classes tiny/mid/large, large = padded to span several chunks); a chain of 1-5 operations Lookup/Insert/Set/Replace/Remove/ArrayInsert/ArrayAppend with paths derived from the current document (existing locations, new members, index==len, index>len, last, last-N, [0] on non-arrays, missing parents, paths into scalars, $); each operation is applied to a clone of the stored IndexedJsonDocument and to the in-memory JSONDocument; result document, changed flag and error presence are compared; the stored result must also be the normalized text of the expected value; Compare/JsonType of first and last document are compared as well. Non-trivial: the stored document has >=2 chunks and at least one operation of the chain addresses a location beyond the first chunk boundary and either finds a value or changes the document; distinct by (document hash, operation list)."

// Findings of this check (ids as they would appear in known_findings.json). A shape that
// reproduces a finding listed there as open is not generated (so the rest of the space stays
// checked) and its pinned reproduction reports KNOWN-FINDING instead of failing.
const (
	c17FLastN      = "C17-last-minus-n"         // [last-N] path legs are rejected by the stored implementation
	c17FWrapAppend = "C17-autowrap-append"      // [N>=1] on a non-array that is the root or an array element: Set/Insert are silent no-ops
	c17FEmptyArray = "C17-empty-array-index"    // Set/Insert at an index of an empty array: panic (root) or silent no-op (nested)
	c17FMissingIdx = "C17-missing-parent-index" // Set/Insert through a missing location followed by an index leg: internal error
	c17FArrayEdge  = "C17-chunk-ends-before-first-element" // a leaf chunk ending right after '[' (boundary key = start of element 0): every access to that element panics
	c17FStaleKeys  = "C17-stale-index-keys"   // Insert/Remove of an array element: following chunks are reused with their old (now shifted) index keys
	c17FGtLenKeys  = "C17-append-index-keys"  // Set/Insert at an index > len appends, but chunk keys inside/after the new element carry the requested index
	c17FEscapedKey = "C17-escaped-key-order"  // a member name with a character JSON escapes (\n, U+2028 …) is ordered by its escaped text: sibling lookups miss
	c17FEmptyKey   = "C17-empty-key-path"     // the path member "" is rejected
	c17FRemoveEdge = "C17-remove-first-at-chunk-end" // Remove of the first element/member whose value ends at a chunk boundary leaves the comma: invalid JSON
)

// c17Excluded reports whether a generator shape is switched off because it reproduces a
// finding that is listed as open in known_findings.json.
func c17Excluded(id string) bool {
	return vh.OpenFinding("C17", id)
}

type c17Op struct {
	Kind string      `json:"kind"`
	Path string      `json:"path"`
	Val  interface{} `json:"val,omitempty"`
}

func (o c17Op) hasVal() bool { return o.Kind != "Lookup" && o.Kind != "Remove" }

func (o c17Op) String() string {
	if !o.hasVal() {
		return fmt.Sprintf("%s(%s)", o.Kind, o.Path)
	}
	return fmt.Sprintf("%s(%s, %s)", o.Kind, o.Path, verifJShort(verifJMarshal(o.Val)))
}

var c17Kinds = []string{"Lookup", "Insert", "Set", "Replace", "Remove", "ArrayInsert", "ArrayAppend", "Lookup", "Set", "Remove", "Insert"}

// c17Shape says what a path meets in a document.
type c17Shape struct {
	traits      []string
	afterMiss   bool // legs continue after a location that does not exist
	afterMissIx bool // … and one of those legs is an index
	wrap0Mid    bool // [0]/[last] applied to a non-array, followed by further legs
	wrapNFinal  bool // final leg [N>=1] applied to a non-array …
	wrapNMember bool // … that is an object member (the one auto-wrap the stored implementation has)
	emptyArrIdx bool // an index leg applied to an empty array
	lastN       bool // a last-N leg
	gtLenFinal  bool // final leg is an index > len of an existing array
	emptyKey    bool // a member name ""
	quoteKey    bool // a member name containing "
	plainHit    bool // every leg is an existing member / element
	firstOfMany bool // plainHit and the final leg is the first of >= 2 elements/members of its container
	target      interface{}
}

func c17ShapeOf(doc interface{}, legs []verifJLeg) c17Shape {
	var sh c17Shape
	at := doc
	missing := false
	sh.plainHit = true
	prevKey := false
	for li, l := range legs {
		final := li == len(legs)-1
		if !l.isIdx && l.raw == "" {
			if l.key == "" {
				sh.emptyKey = true
			}
			if strings.Contains(l.key, `"`) {
				sh.quoteKey = true
			}
		}
		if strings.HasPrefix(l.raw, "last-") {
			sh.lastN = true
		}
		if missing {
			sh.traits = append(sh.traits, "after_miss")
			sh.afterMiss = true
			if l.isIdx || l.raw != "" {
				sh.afterMissIx = true
			}
			continue
		}
		if l.isIdx || l.raw != "" {
			a, isArr := at.([]interface{})
			idx, under := l.idx, false
			n := 1
			if isArr {
				n = len(a)
			}
			pre := "idx"
			if l.raw != "" {
				k := 0
				pre = "last"
				if strings.HasPrefix(l.raw, "last-") {
					fmt.Sscanf(l.raw[5:], "%d", &k)
					pre = "lastN"
					sh.lastN = true
				}
				idx = n - 1 - k
				if idx < 0 {
					under = true
					if isArr && n == 0 && k == 0 {
						under = false // [last] of an empty array is index 0
						idx = 0
					}
				}
			}
			if !isArr {
				sh.plainHit = false
				switch {
				case under:
					sh.traits = append(sh.traits, pre+"_wrap_under")
					missing = true
				case idx == 0:
					sh.traits = append(sh.traits, pre+"_wrap0")
					if !final {
						sh.wrap0Mid = true
					}
				default:
					sh.traits = append(sh.traits, pre+"_wrapN")
					missing = true
					if final {
						sh.wrapNFinal = true
						sh.wrapNMember = prevKey
					}
				}
				prevKey = false
				continue
			}
			if n == 0 {
				sh.emptyArrIdx = true
			}
			switch {
			case under:
				sh.traits = append(sh.traits, pre+"_under")
				missing = true
			case idx < n:
				sh.traits = append(sh.traits, pre+"_in")
				at = a[idx]
				sh.firstOfMany = final && idx == 0 && n >= 2
			case idx == n:
				sh.traits = append(sh.traits, pre+"_eqlen")
				missing = true
			default:
				sh.traits = append(sh.traits, pre+"_gtlen")
				missing = true
				sh.gtLenFinal = final
			}
			if missing {
				sh.plainHit = false
			}
			prevKey = false
			continue
		}
		if strings.Contains(l.key, `"`) {
			sh.quoteKey = true
		}
		if l.key == "" {
			sh.emptyKey = true
		}
		prevKey = true
		switch v := at.(type) {
		case map[string]interface{}:
			if c, ok := v[l.key]; ok {
				sh.traits = append(sh.traits, "key_hit")
				at = c
				sh.firstOfMany = final && len(v) >= 2 && verifJSortedKeys(v)[0] == l.key
			} else {
				sh.traits = append(sh.traits, "key_miss")
				missing = true
			}
		case []interface{}:
			sh.traits = append(sh.traits, "key_on_array")
			missing = true
		default:
			sh.traits = append(sh.traits, "key_on_scalar")
			missing = true
		}
		if missing {
			sh.plainHit = false
		}
	}
	if len(sh.traits) == 0 {
		sh.traits = []string{"root"}
	}
	if sh.plainHit {
		sh.target = at
	} else {
		sh.firstOfMany = false
	}
	return sh
}

// c17ArrayEdges returns the locations (key bytes without the state byte) of first array elements
// that start exactly at a leaf chunk boundary of the stored document.
func c17ArrayEdges(ctx *sql.Context, d IndexedJsonDocument) [][]byte {
	if d.m.Root.Level() == 0 {
		return nil
	}
	var out [][]byte
	_ = d.m.WalkNodes(ctx, func(ctx context.Context, n *Node) error {
		if n.Level() == 1 {
			for i := 0; i < n.Count(); i++ {
				k := n.GetKey(i)
				if len(k) >= 3 && jsonPathType(k[0]) == startOfValue && k[len(k)-2] == beginArrayKey && k[len(k)-1] == 0 {
					out = append(out, bytes.Clone(k[1:]))
				}
			}
		}
		return nil
	})
	return out
}

func c17PassesEdge(edges [][]byte, path string) bool {
	if len(edges) == 0 {
		return false
	}
	loc, err := jsonPathElementsFromMySQLJsonPath([]byte(path))
	if err != nil {
		return false // the stored implementation rejects the path or falls back: no cursor involved
	}
	for _, e := range edges {
		if bytes.HasPrefix(loc.key[1:], e) {
			return true
		}
	}
	return false
}

// c17EndsAtChunkBoundary reports whether the value at |path| ends exactly where a leaf chunk of
// the stored document ends.
func c17EndsAtChunkBoundary(ctx *sql.Context, d IndexedJsonDocument, path string) bool {
	if d.m.Root.Level() == 0 {
		return false
	}
	loc, err := jsonPathElementsFromMySQLJsonPath([]byte(path))
	if err != nil {
		return false
	}
	loc.setScannerState(endOfValue)
	found := false
	_ = d.m.WalkNodes(ctx, func(ctx context.Context, n *Node) error {
		if n.Level() == 1 {
			for i := 0; i < n.Count(); i++ {
				if bytes.Equal(n.GetKey(i), loc.key) {
					found = true
				}
			}
		}
		return nil
	})
	return found
}

// c17ShapeExcluded names the open finding (if any) that (kind, shape) would reproduce.
func c17ShapeExcluded(kind string, sh c17Shape) string {
	mut := kind == "Set" || kind == "Insert"
	switch {
	case sh.lastN && c17Excluded(c17FLastN):
		return c17FLastN
	case mut && sh.wrapNFinal && !sh.wrapNMember && c17Excluded(c17FWrapAppend):
		return c17FWrapAppend
	case mut && sh.emptyArrIdx && c17Excluded(c17FEmptyArray):
		return c17FEmptyArray
	case mut && sh.afterMissIx && c17Excluded(c17FMissingIdx):
		return c17FMissingIdx
	case mut && sh.gtLenFinal && c17Excluded(c17FGtLenKeys):
		return c17FGtLenKeys
	case sh.emptyKey && c17Excluded(c17FEmptyKey):
		return c17FEmptyKey
	}
	return ""
}

func c17GenLegs(t *rapid.T, cur interface{}, keys []string) (legs, existing []verifJLeg) {
	legs, at := verifJWalk(t, cur, 6)
	existing = append([]verifJLeg{}, legs...)
	switch v := rapid.IntRange(0, 13).Draw(t, "pathvariant"); {
	case v <= 4:
		// existing location
	case v == 5:
		legs = append(legs, verifJLeg{key: rapid.SampledFrom(keys).Draw(t, "newkey")})
	case v == 6:
		n := 0
		if a, ok := at.([]interface{}); ok {
			n = len(a)
		} else {
			n = rapid.IntRange(0, 1).Draw(t, "idx01")
		}
		legs = append(legs, verifJLeg{isIdx: true, idx: n})
	case v == 7:
		n := 1
		if a, ok := at.([]interface{}); ok {
			n = len(a)
		}
		legs = append(legs, verifJLeg{isIdx: true, idx: n + rapid.IntRange(1, 3).Draw(t, "beyond")})
	case v == 8:
		raw := rapid.SampledFrom([]string{"last", "last-1", "last-0", "last-7"}).Draw(t, "last")
		if len(legs) > 0 && legs[len(legs)-1].isIdx && rapid.Bool().Draw(t, "replacelast") {
			legs[len(legs)-1] = verifJLeg{raw: raw}
		} else {
			legs = append(legs, verifJLeg{raw: raw})
		}
	case v == 9:
		// missing parent
		if len(legs) > 0 {
			legs = legs[:rapid.IntRange(0, len(legs)-1).Draw(t, "cut")]
		}
		legs = append(legs, verifJLeg{key: "nokey"})
		if rapid.Bool().Draw(t, "idxchild") {
			legs = append(legs, verifJLeg{isIdx: true, idx: rapid.IntRange(0, 1).Draw(t, "idx01")})
		} else {
			legs = append(legs, verifJLeg{key: rapid.SampledFrom(keys).Draw(t, "newkey")})
		}
	case v == 10:
		// into whatever is there (a scalar most of the time): member, then maybe one more level
		legs = append(legs, verifJLeg{key: rapid.SampledFrom(keys).Draw(t, "newkey")})
		if rapid.Bool().Draw(t, "deeper") {
			legs = append(legs, verifJLeg{key: rapid.SampledFrom(keys).Draw(t, "newkey2")})
		}
	case v == 11:
		legs = nil
	case v == 12:
		// [0] (auto-wrap) somewhere in the middle or at the end
		pos := rapid.IntRange(0, len(legs)).Draw(t, "wrap0pos")
		legs = append(legs[:pos:pos], append([]verifJLeg{{isIdx: true, idx: 0}}, legs[pos:]...)...)
	default:
		// sibling of the walked location: replace the last leg
		if len(legs) > 0 {
			if legs[len(legs)-1].isIdx {
				legs[len(legs)-1].idx += rapid.IntRange(-1, 1).Draw(t, "shift")
				if legs[len(legs)-1].idx < 0 {
					legs[len(legs)-1].idx = 0
				}
			} else {
				legs[len(legs)-1].key = rapid.SampledFrom(keys).Draw(t, "sibling")
			}
		}
	}
	for i := range legs {
		if !legs[i].isIdx && legs[i].raw == "" && rapid.IntRange(0, 7).Draw(t, "quote?") == 0 {
			legs[i].quote = true
		}
	}
	return legs, existing
}

func c17GenOpValue(t *rapid.T, keys []string) interface{} {
	switch c := rapid.IntRange(0, 9).Draw(t, "valclass"); {
	case c < 6:
		return verifJGen{keys: keys, maxDepth: 2, maxWidth: 3}.value(t, 0)
	case c < 8:
		return verifJGen{keys: keys, maxDepth: 2, maxWidth: 3, padProb: 50, padMin: 300, padMax: 2500}.value(t, 0)
	default:
		g := verifJGen{keys: keys, maxDepth: 3, maxWidth: 6, padProb: 40, padMin: 200, padMax: 900}
		if rapid.Bool().Draw(t, "obj") {
			return g.object(t, 0, 2)
		}
		return g.array(t, 0, 2)
	}
}

// c17Beyond reports whether |path| addresses a location after the first chunk boundary of root.
func c17Beyond(root *Node, path string) bool {
	if root.Level() == 0 || root.Count() < 2 {
		return false
	}
	loc, err := jsonPathElementsFromMySQLJsonPath([]byte(path))
	if err != nil {
		return false
	}
	first := jsonPathFromKey(root.GetKey(0))
	cmp, err := compareJsonLocations(loc, first)
	return err == nil && cmp > 0
}

// c17Mismatch is a disagreement between the stored and the in-memory implementation.
type c17Mismatch struct {
	what   string // short class of the disagreement (error, changed, result, text, found …)
	op     string // operation kind
	traits string
	msg    string
}

func c17Recover(f func()) (panicked string) {
	defer func() {
		if r := recover(); r != nil {
			panicked = fmt.Sprint(r)
			if len(panicked) > 300 {
				panicked = panicked[:300]
			}
		}
	}()
	f()
	return ""
}

// c17Apply runs one operation on both implementations. It returns the new model value, the new
// stored document, whether the operation found/changed something, and a mismatch (nil when the
// implementations agree). sh may be the zero value (pinned cases): then everything is compared.
func c17Apply(ctx *sql.Context, ns NodeStore, sIdx IndexedJsonDocument, cur interface{}, op c17Op, sh c17Shape, classes map[string]bool) (interface{}, IndexedJsonDocument, bool, *c17Mismatch) {
	kind, path := op.Kind, op.Path
	tr := strings.Join(sh.traits, ",")
	mm := func(what, format string, a ...any) *c17Mismatch {
		return &c17Mismatch{what: what, op: kind, traits: tr, msg: fmt.Sprintf("%s on %s [path meets: %s]: ", op, verifJShort(verifJMarshal(cur)), tr) + fmt.Sprintf(format, a...)}
	}
	memDoc := types.JSONDocument{Val: types.DeepCopyJson(cur)}
	var valWrap sql.JSONWrapper
	if op.hasVal() {
		valWrap = types.JSONDocument{Val: types.DeepCopyJson(op.Val)}
	}
	// Shapes on which go-mysql-server's in-memory implementation is not a usable reference
	// (see the assumptions of the evidence): only error presence is compared there.
	refResultUsable := !sh.afterMiss && !sh.wrap0Mid

	if kind == "Lookup" {
		// every SQL function reaches Lookup through types.LookupJSONValue
		var sRes, mRes sql.JSONWrapper
		var sErr, mErr error
		sPanic := c17Recover(func() { sRes, sErr = types.LookupJSONValue(ctx, sIdx, path) })
		mPanic := c17Recover(func() { mRes, mErr = types.LookupJSONValue(ctx, memDoc, path) })
		if sPanic != "" {
			return cur, sIdx, false, mm("panic", "stored implementation panicked: %s (in-memory panic: %q)", sPanic, mPanic)
		}
		if mPanic != "" {
			// the in-memory reference itself crashes on this path: nothing to compare with
			classes["reference_panic"] = true
			return cur, sIdx, false, nil
		}
		if sh.quoteKey {
			// the jsonpath library behind the in-memory Lookup does not understand \" in a member
			// name; the expected answer is known only when every leg exists
			classes["lookup_quote_key"] = true
			if !sh.plainHit || strings.Contains(path, "[last") {
				// ([last] makes the stored implementation fall back to the in-memory one)
				return cur, sIdx, false, nil
			}
			if sErr != nil || sRes == nil {
				return cur, sIdx, false, mm("found", "stored Lookup err=%v found=%v, but every leg of the path exists", sErr, sRes != nil)
			}
			sv, err := verifJInterface(ctx, sRes)
			if err != nil || !verifJEqual(sv, sh.target) {
				return cur, sIdx, false, mm("result", "stored Lookup = %s (err %v), the document has %s there", verifJShort(verifJMarshal(sv)), err, verifJShort(verifJMarshal(sh.target)))
			}
			classes["lookup_hit"] = true
			return cur, sIdx, true, nil
		}
		if (sErr != nil) != (mErr != nil) {
			return cur, sIdx, false, mm("error", "stored err=%v, in-memory err=%v", sErr, mErr)
		}
		if sErr != nil {
			classes["lookup_error"] = true
			return cur, sIdx, false, nil
		}
		sNil, mNil := sRes == nil, mRes == nil
		if sNil != mNil {
			return cur, sIdx, false, mm("found", "stored found=%v, in-memory found=%v", !sNil, !mNil)
		}
		if sNil {
			classes["lookup_miss"] = true
			return cur, sIdx, false, nil
		}
		sv, err1 := verifJInterface(ctx, sRes)
		mv, err2 := verifJInterface(ctx, mRes)
		if err1 != nil || err2 != nil {
			return cur, sIdx, false, mm("decode", "cannot decode results: stored %v / in-memory %v", err1, err2)
		}
		if !verifJEqual(sv, mv) {
			return cur, sIdx, false, mm("result", "\n stored    %s\n in-memory %s", verifJShort(verifJMarshal(sv)), verifJShort(verifJMarshal(mv)))
		}
		classes["lookup_hit"] = true
		return cur, sIdx, true, nil
	}

	run := func(d types.MutableJSON) (r types.MutableJSON, ch bool, err error, panicked string) {
		panicked = c17Recover(func() {
			switch kind {
			case "Insert":
				r, ch, err = d.Insert(ctx, path, valWrap)
			case "Set":
				r, ch, err = d.Set(ctx, path, valWrap)
			case "Replace":
				r, ch, err = d.Replace(ctx, path, valWrap)
			case "Remove":
				r, ch, err = d.Remove(ctx, path)
			case "ArrayInsert":
				r, ch, err = d.ArrayInsert(ctx, path, valWrap)
			case "ArrayAppend":
				r, ch, err = d.ArrayAppend(ctx, path, valWrap)
			}
		})
		return
	}
	// every SQL function clones the document before mutating it (function/json.MutableJsonDoc)
	sRes, sCh, sErr, sPanic := run(sIdx.Clone(ctx).(types.MutableJSON))
	mRes, mCh, mErr, mPanic := run(memDoc)
	if sPanic != "" {
		return cur, sIdx, false, mm("panic", "stored implementation panicked: %s (in-memory panic: %q)", sPanic, mPanic)
	}
	if mPanic != "" {
		classes["reference_panic"] = true
		return cur, sIdx, false, nil
	}
	if (sErr != nil) != (mErr != nil) {
		return cur, sIdx, false, mm("error", "stored err=%v, in-memory err=%v", sErr, mErr)
	}
	if sErr != nil {
		classes["op_error"] = true
		return cur, sIdx, false, nil
	}
	if !refResultUsable {
		classes["reference_unusable"] = true
		return cur, sIdx, false, nil
	}
	sv, err1 := verifJInterface(ctx, sRes)
	mv, err2 := verifJInterface(ctx, mRes)
	if err1 != nil || err2 != nil {
		around := ""
		if raw, err := types.MarshallJson(ctx, sRes); err == nil {
			var se *json.SyntaxError
			var tmp interface{}
			if errors.As(json.Unmarshal(raw, &tmp), &se) {
				lo, hi := max(0, int(se.Offset)-40), min(len(raw), int(se.Offset)+20)
				around = fmt.Sprintf("; stored text around offset %d of %d: …%s…", se.Offset, len(raw), raw[lo:hi])
			}
		}
		return cur, sIdx, false, mm("decode", "cannot decode results: stored %v / in-memory %v%s", err1, err2, around)
	}
	if !verifJEqual(sv, mv) {
		return cur, sIdx, false, mm("result", "changed stored=%v in-memory=%v\n stored    %s\n in-memory %s", sCh, mCh, verifJShort(verifJMarshal(sv)), verifJShort(verifJMarshal(mv)))
	}
	if sCh != mCh {
		return cur, sIdx, false, mm("changed", "same result document but changed flag stored=%v in-memory=%v", sCh, mCh)
	}
	if c, err := types.CompareJSON(ctx, sRes, mRes); err != nil || c != 0 {
		return cur, sIdx, false, mm("compare", "CompareJSON(stored result, in-memory result) = %d, %v", c, err)
	}
	if !sCh && !verifJEqual(sv, cur) {
		return cur, sIdx, false, mm("flag", "changed=false but the document changed to %s", verifJShort(verifJMarshal(sv)))
	}
	want := verifJMarshal(mv)
	if idx, ok := sRes.(IndexedJsonDocument); ok {
		b, err := idx.GetBytes(ctx)
		if err != nil {
			return cur, sIdx, false, mm("decode", "GetBytes of the stored result: %v", err)
		}
		if string(b) != string(want) {
			return cur, sIdx, false, mm("text", "stored result is JSON-equal but not the normalized text\n stored %s\n want   %s", verifJShort(b), verifJShort(want))
		}
		if bad := verifJCheckIndex(ctx, ns, idx.m.Root, true); bad != "" {
			if c17Raw || !c17Excluded(c17FStaleKeys) {
				return cur, sIdx, false, mm("index", "the stored result has the right text but its chunk index does not describe it (later lookups and edits of this document seek by these keys): %s", bad)
			}
			// known finding: carry on with a freshly stored copy of the same value
			classes["excluded:"+c17FStaleKeys] = true
			var err error
			if idx, err = verifJStore(ctx, ns, mv); err != nil {
				return cur, sIdx, false, mm("decode", "re-storing the result: %v", err)
			}
		}
		sIdx = idx
		classes["indexed_result"] = true
	} else {
		// the operation fell back to the in-memory implementation; store the result again the
		// way writing it to a table and reading it back would
		var err error
		sIdx, err = verifJStore(ctx, ns, mv)
		if err != nil {
			return cur, sIdx, false, mm("decode", "re-storing the result: %v", err)
		}
		classes["fallback_result"] = true
	}
	if sCh {
		classes["changed:"+kind] = true
	} else {
		classes["noop:"+kind] = true
	}
	return mv, sIdx, sCh, nil
}

// c17CompareDocs compares stored.Compare with CompareJSON of the in-memory values, for a stored,
// an in-memory and a raw right-hand side.
func c17CompareDocs(ctx *sql.Context, stored, lastStored IndexedJsonDocument, doc, cur interface{}) *c17Mismatch {
	gen := func(what, format string, a ...any) *c17Mismatch {
		return &c17Mismatch{what: what, op: "-", traits: "-", msg: fmt.Sprintf(format, a...)}
	}
	last := types.JSONDocument{Val: types.DeepCopyJson(cur)}
	wantCmp, err := types.CompareJSON(ctx, types.DeepCopyJson(doc), last.Val)
	if err != nil {
		return gen("compare", "CompareJSON(model): %v", err)
	}
	for _, c := range []struct {
		name  string
		other interface{}
	}{{"stored-vs-stored", lastStored}, {"stored-vs-memory", last}, {"stored-vs-raw-value", last.Val}} {
		var gotCmp int
		var err error
		if p := c17Recover(func() { gotCmp, err = stored.Compare(ctx, c.other) }); p != "" {
			return gen("compare-panic:"+c.name, "Compare %s panicked: %s\n first %s\n last  %s", c.name, p, verifJShort(verifJMarshal(doc)), verifJShort(verifJMarshal(cur)))
		}
		if err != nil {
			return gen("compare-error:"+c.name, "Compare %s: %v\n first %s\n last  %s", c.name, err, verifJShort(verifJMarshal(doc)), verifJShort(verifJMarshal(cur)))
		}
		if (gotCmp == 0) != (wantCmp == 0) || (gotCmp < 0) != (wantCmp < 0) {
			return gen("compare:"+c.name, "Compare %s: stored says %d, in-memory CompareJSON says %d\n first %s\n last  %s", c.name, gotCmp, wantCmp, verifJShort(verifJMarshal(doc)), verifJShort(verifJMarshal(cur)))
		}
	}
	return nil
}

type c17CaseFile struct {
	Doc json.RawMessage `json:"doc"`
	Ops []c17Op         `json:"ops"`
}

// c17Case generates and checks one case. A disagreement is returned, not reported, so that the
// development census can bucket disagreements; TestVerif_C17 turns it into a failure.
func c17Case(rt *rapid.T, rec *vh.Recorder) (*c17Mismatch, *c17CaseFile) {
	ctx := sql.NewEmptyContext()
	ns := NewTestNodeStore()
	keys := verifJKeys
	classes := map[string]bool{}
	switch v := rapid.IntRange(0, 11).Draw(rt, "keyalphabet"); {
	case v == 10 && !c17Excluded(c17FEmptyKey):
		// the empty member name (valid JSON, valid in a path as $.""); while the finding is open
		// documents do not contain it either: it also sorts before [0] in the stored document's
		// location order, so [0]/[last] applied to an object that has it goes astray
		// (Replace($[0], false) on {"":[…],…} is a no-op)
		keys = append(append([]string{}, verifJKeys...), "")
		classes["keys:empty"] = true
	case v == 11 && !c17Excluded(c17FEscapedKey):
		// member names with characters that JSON text escapes; paths never name these members
		// (how such a name is written in a path is outside this check), they are only siblings
		keys = append(append([]string{}, verifJKeys...), "a\n", "a\tb", "k\u2028")
		classes["keys:escaped"] = true
	}
	pathKeys := keys
	if classes["keys:escaped"] {
		pathKeys = append(append([]string{}, verifJKeys...), "aA", "kz")
	}
	doc, class := verifJDoc(rt, keys)
	docBytes := verifJMarshal(doc)
	cf := &c17CaseFile{Doc: docBytes}
	gen := func(what, format string, a ...any) *c17Mismatch {
		return &c17Mismatch{what: what, op: "-", traits: "-", msg: fmt.Sprintf(format, a...)}
	}

	stored, err := verifJStore(ctx, ns, doc)
	if err != nil {
		return gen("store", "SerializeJsonToAddr(%s): %v", verifJShort(docBytes), err), cf
	}
	// the stored bytes are the normalized text
	got, err := stored.GetBytes(ctx)
	if err != nil || string(got) != string(docBytes) {
		return gen("store", "stored document text differs from the marshalled value: err=%v\n got %s\nwant %s", err, verifJShort(got), verifJShort(docBytes)), cf
	}
	nchunks := verifJChunks(stored.m.Root)

	cur := types.DeepCopyJson(doc) // model value
	sIdx := stored
	nops := rapid.IntRange(1, 5).Draw(rt, "nops")
	var ops []string
	classes["size="+class] = true
	classes[fmt.Sprintf("chunks=%d", min(nchunks, 4))] = true
	nontrivial := false

	for i := 0; i < nops; i++ {
		kind := rapid.SampledFrom(c17Kinds).Draw(rt, "op")
		legs, existing := c17GenLegs(rt, cur, pathKeys)
		if classes["keys:escaped"] {
			// do not name an escaped member in a path
			clean := func(ls []verifJLeg) []verifJLeg {
				for i, l := range ls {
					if !l.isIdx && l.raw == "" && strings.ContainsAny(l.key, "\n\t\u2028") {
						return ls[:i]
					}
				}
				return ls
			}
			legs, existing = clean(legs), clean(existing)
		}
		sh := c17ShapeOf(cur, legs)
		f := c17ShapeExcluded(kind, sh)
		if f == "" && kind == "Remove" && sh.firstOfMany && c17Excluded(c17FRemoveEdge) && c17EndsAtChunkBoundary(ctx, sIdx, verifJRenderPath(legs)) {
			f = c17FRemoveEdge
			existing = nil // Remove($) is an error in both implementations
		}
		if c17Excluded(c17FArrayEdge) {
			if edges := c17ArrayEdges(ctx, sIdx); c17PassesEdge(edges, verifJRenderPath(legs)) || (f != "" && c17PassesEdge(edges, verifJRenderPath(existing))) {
				f = c17FArrayEdge
				existing = nil
			}
		}
		if f != "" {
			// reproduces an open finding: use the plain existing location instead
			classes["excluded:"+f] = true
			legs = existing
			sh = c17ShapeOf(cur, legs)
			if c17ShapeExcluded(kind, sh) != "" {
				legs = nil
				sh = c17ShapeOf(cur, legs)
			}
		}
		op := c17Op{Kind: kind, Path: verifJRenderPath(legs)}
		if op.hasVal() {
			op.Val = c17GenOpValue(rt, verifJKeys)
		}
		cf.Ops = append(cf.Ops, op)
		ops = append(ops, op.String())
		beyond := c17Beyond(sIdx.m.Root, op.Path)
		for _, tr := range sh.traits {
			classes["path:"+tr] = true
		}
		var effective bool
		var m *c17Mismatch
		cur, sIdx, effective, m = c17Apply(ctx, ns, sIdx, cur, op, sh, classes)
		if m != nil {
			if len(ops) > 1 {
				m.msg += fmt.Sprintf("\n (after %s)", strings.Join(ops[:len(ops)-1], "; "))
			}
			return m, cf
		}
		if effective && beyond {
			nontrivial = true
			classes["beyond_first_chunk"] = true
		}
	}

	// Compare / JsonType of first and last document
	cmpLast := sIdx
	if c17Excluded(c17FArrayEdge) && (len(c17ArrayEdges(ctx, stored)) > 0 || len(c17ArrayEdges(ctx, sIdx)) > 0) {
		// the stored-vs-stored comparison walks both trees with cursors: compare with a copy
		// of the first document instead
		classes["excluded:"+c17FArrayEdge] = true
		cmpLast = stored
		cur = doc
	}
	if m := c17CompareDocs(ctx, stored, cmpLast, doc, cur); m != nil {
		m.msg += fmt.Sprintf(" (ops %v)", ops)
		return m, cf
	}
	wantCmp, _ := types.CompareJSON(ctx, types.DeepCopyJson(doc), types.DeepCopyJson(cur))
	if wantCmp != 0 {
		classes["compare_unequal"] = true
	}
	jt, err := stored.JsonType(ctx)
	if err != nil {
		return gen("type", "JsonType: %v", err), cf
	}
	wantJT := "NULL"
	switch doc.(type) {
	case bool:
		wantJT = "BOOLEAN"
	case float64:
		wantJT = "DOUBLE"
	case string:
		wantJT = "STRING"
	case []interface{}:
		wantJT = "ARRAY"
	case map[string]interface{}:
		wantJT = "OBJECT"
	}
	if jt != wantJT {
		return gen("type", "JsonType of %s = %q, want %q", verifJShort(docBytes), jt, wantJT), cf
	}

	var cl []string
	for c := range classes {
		cl = append(cl, c)
	}
	sort.Strings(cl)
	desc := fmt.Sprintf("doc %016x (%s, %d bytes, %d chunks) ops %s", verifJHash(docBytes), class, len(docBytes), nchunks, strings.Join(ops, "; "))
	if rec != nil {
		for _, c := range cl {
			if strings.HasPrefix(c, "excluded:") {
				rec.Excluded(1)
			}
		}
		rec.Case(desc, nontrivial, cl...)
	}
	return nil, cf
}

// c17RunFile replays a (document, operations) case without shape knowledge: everything is compared.
func c17RunFile(cf *c17CaseFile) (m *c17Mismatch) {
	ctx := sql.NewEmptyContext()
	ns := NewTestNodeStore()
	var doc interface{}
	if err := json.Unmarshal(cf.Doc, &doc); err != nil {
		return &c17Mismatch{what: "file", msg: err.Error()}
	}
	sIdx, err := verifJStore(ctx, ns, doc)
	if err != nil {
		return &c17Mismatch{what: "store", msg: err.Error()}
	}
	cur := doc
	first := sIdx
	defer func() {
		if m == nil {
			m = c17CompareDocs(ctx, first, sIdx, doc, cur)
		}
	}()
	for _, op := range cf.Ops {
		before := cur
		cur, sIdx, _, m = c17Apply(ctx, ns, sIdx, cur, op, c17Shape{}, map[string]bool{})
		if m == nil && os.Getenv("VERIF_C17_CANON") != "" {
			fresh, _ := verifJStore(ctx, ns, cur)
			fmt.Printf("after %s: canonical=%v level=%d/%d\n", op, fresh.m.Root.HashOf() == sIdx.m.Root.HashOf(), sIdx.m.Root.Level(), fresh.m.Root.Level())
			if fresh.m.Root.HashOf() != sIdx.m.Root.HashOf() {
				dump := func(name string, d IndexedJsonDocument) {
					_ = d.m.WalkNodes(ctx, func(ctx context.Context, n *Node) error {
						if n.Level() >= 1 {
							for i := 0; i < n.Count(); i++ {
								k := n.GetKey(i)
								fmt.Printf("   %s level %d key %d: state=%d path=%s\n", name, n.Level(), i, k[0], MySqlJsonPathFromKey(k))
							}
						} else {
							v := n.GetValue(0)
							fmt.Printf("   %s   leaf %d bytes: %s\n", name, len(v), verifJShort(v))
						}
						return nil
					})
				}
				dump("mutated", sIdx)
				dump("fresh  ", fresh)
			}
		}
		if m != nil {
			if out := os.Getenv("VERIF_C17_FLATTEN"); out != "" {
				b, _ := json.Marshal(&c17CaseFile{Doc: verifJMarshal(before), Ops: []c17Op{op}})
				_ = os.WriteFile(out, b, 0o644)
			}
			return m
		}
	}
	return nil
}

func TestVerif_C17(t *testing.T) {
	rec := vh.NewRecorder("C17", "docs", "exploration", c17DocRule,
		"numbers are float64 (what types.JSON.Convert produces for JSON text); object keys come from a fixed alphabet without backslashes or control characters",
		"unquoted path members are ASCII identifiers; every other member name is written quoted with \\\" escaping",
		"documents are cloned before a mutation, as function/json.MutableJsonDoc does for every SQL function (IndexedJsonDocument shares its cached decoded value with in-memory fallbacks otherwise)",
		"lookups go through types.LookupJSONValue like every SQL function (Lookup(\"$\") is never called directly)",
		"where go-mysql-server's in-memory implementation is itself not usable as a reference only error presence is compared: paths that continue after a location that does not exist (it ignores the remaining legs), [0]/[last] on a non-array followed by further legs (it drops them), Lookup with \\\" in a member name (its jsonpath library cannot parse it; there the expected value is taken from the document when every leg exists), and paths on which it panics")
	defer rec.Write(t)
	t.Run("pinned", c17RunPins)
	vh.Check(t, "docs", 5000, 10000, func(rt *rapid.T) {
		if m, _ := c17Case(rt, rec); m != nil {
			rt.Fatalf("%s", m.msg)
		}
	})
}

// TestVerifDev_C17Census is a development aid (never selected by the registry): it runs many
// cases, does not stop at a disagreement and prints the disagreements bucketed by
// (kind of disagreement, operation, what the path meets) with one short example each.
// VERIF_C17_DUMP=<dir> also writes one replayable case file per bucket.
func TestVerifDev_C17Census(t *testing.T) {
	if os.Getenv("VERIF_C17_CENSUS") == "" {
		t.Skip("development aid; set VERIF_C17_CENSUS=<cases>")
	}
	n := 3000
	fmt.Sscanf(os.Getenv("VERIF_C17_CENSUS"), "%d", &n)
	type bucket struct {
		n   int
		msg string
		cf  *c17CaseFile
	}
	buckets := map[string]*bucket{}
	_ = flag.Set("rapid.checks", fmt.Sprint(n))
	_ = flag.Set("rapid.seed", fmt.Sprint(vh.Seed()))
	rapid.Check(t, func(rt *rapid.T) {
		m, cf := c17Case(rt, nil)
		if m == nil {
			return
		}
		tr := strings.Split(m.traits, ",")
		if len(tr) > 2 {
			tr = tr[len(tr)-2:]
		}
		k := m.what + " | " + m.op + " | " + strings.Join(tr, ",")
		b := buckets[k]
		if b == nil {
			b = &bucket{}
			buckets[k] = b
		}
		b.n++
		if b.msg == "" || len(m.msg) < len(b.msg) {
			b.msg = m.msg
			b.cf = cf
		}
	})
	var ks []string
	for k := range buckets {
		ks = append(ks, k)
	}
	sort.Strings(ks)
	for i, k := range ks {
		fmt.Printf("=== #%d %5d  %s\n      %s\n", i, buckets[k].n, k, buckets[k].msg)
		if d := os.Getenv("VERIF_C17_DUMP"); d != "" {
			b, _ := json.Marshal(buckets[k].cf)
			_ = os.WriteFile(filepath.Join(d, fmt.Sprintf("case%d.json", i)), b, 0o644)
		}
	}
}

// TestVerifDev_C17Replay replays a case file written by the census (development aid).
func TestVerifDev_C17Replay(t *testing.T) {
	p := os.Getenv("VERIF_C17_CASE")
	if p == "" {
		t.Skip("development aid; set VERIF_C17_CASE=<file>")
	}
	b, err := os.ReadFile(p)
	if err != nil {
		t.Fatal(err)
	}
	var cf c17CaseFile
	if err := json.Unmarshal(b, &cf); err != nil {
		t.Fatal(err)
	}
	if m := c17RunFile(&cf); m != nil {
		t.Fatalf("%s", m.msg)
	}
}

// TestVerifDev_C17Chunks prints the chunk layout of the document of a case file (development aid).
func TestVerifDev_C17Chunks(t *testing.T) {
	p := os.Getenv("VERIF_C17_CHUNKS")
	if p == "" {
		t.Skip("development aid; set VERIF_C17_CHUNKS=<file>")
	}
	b, err := os.ReadFile(p)
	if err != nil {
		t.Fatal(err)
	}
	var cf c17CaseFile
	if err := json.Unmarshal(b, &cf); err != nil {
		t.Fatal(err)
	}
	var doc interface{}
	_ = json.Unmarshal(cf.Doc, &doc)
	ctx := sql.NewEmptyContext()
	d, err := verifJStore(ctx, NewTestNodeStore(), doc)
	if err != nil {
		t.Fatal(err)
	}
	_ = d.m.WalkNodes(ctx, func(ctx context.Context, n *Node) error {
		if n.Level() >= 1 {
			for i := 0; i < n.Count(); i++ {
				k := n.GetKey(i)
				fmt.Printf("level %d key %d: state=%d path=%s raw=%q\n", n.Level(), i, k[0], MySqlJsonPathFromKey(k), k)
			}
		} else {
			v := n.GetValue(0)
			fmt.Printf("  leaf %d bytes: %s\n", len(v), verifJShort(v))
		}
		return nil
	})
}
