package tree

// C17 (document half) — stored JSON documents behave like in-memory JSON.
//
// Differential: every operation of a generated chain is applied to a tree.IndexedJsonDocument
// (built by SerializeJsonToAddr, i.e. what a JSON column read from storage hands to the SQL
// functions) and to go-mysql-server's in-memory types.JSONDocument of the same value.

import (
	"context"
	"fmt"
	"os"
	"strings"
	"testing"

	"github.com/dolthub/go-mysql-server/sql"
	"github.com/dolthub/go-mysql-server/sql/types"
	"pgregory.net/rapid"

	"github.com/dolthub/dolt/go/zzverif/vh"
)

const c17DocRule = "documents from a grammar of nested objects/arrays/scalars (depth<=6, keys from an alphabet with shared prefixes and keys that need quoting, strings with quotes/backslashes/escapes/multi-byte runes; size classes tiny/mid/large, large = padded to span several chunks); a chain of 1-5 operations Lookup/Insert/Set/Replace/Remove/ArrayInsert/ArrayAppend with paths derived from the current document (existing locations, new members, index==len, index>len, last, last-N, [0] on non-arrays, missing parents, paths into scalars, $); each operation is applied to the stored IndexedJsonDocument and to the in-memory JSONDocument and result document, changed flag and error presence are compared; the stored result must also be the normalized text of the expected value; Compare/Type/JsonType of first and last document are compared as well. Non-trivial: the stored document has >=2 chunks and at least one operation of the chain addresses a location beyond the first chunk boundary and either finds a value or changes the document; distinct by (document hash, operation list)."

// c17Excluded reports whether a generator shape is switched off because it reproduces a
// finding that is listed as open in known_findings.json (or named in VERIF_C17_EXCLUDE, a
// development aid).
func c17Excluded(id string) bool {
	if vh.OpenFinding("C17", id) {
		return true
	}
	for _, x := range strings.Split(os.Getenv("VERIF_C17_EXCLUDE"), ",") {
		if x == id || x == "all" {
			return true
		}
	}
	return false
}

type c17Op struct {
	kind string
	path string
	val  interface{}
}

func (o c17Op) String() string {
	if o.kind == "Lookup" || o.kind == "Remove" {
		return fmt.Sprintf("%s(%s)", o.kind, o.path)
	}
	return fmt.Sprintf("%s(%s, %s)", o.kind, o.path, verifJShort(verifJMarshal(o.val)))
}

var c17Kinds = []string{"Lookup", "Insert", "Set", "Replace", "Remove", "ArrayInsert", "ArrayAppend", "Lookup", "Set", "Remove", "Insert"}

func c17GenPath(t *rapid.T, cur interface{}, keys []string, kind string) string {
	legs, at := verifJWalk(t, cur, 6)
	switch v := rapid.IntRange(0, 13).Draw(t, "pathvariant"); {
	case v <= 4:
		// existing location
	case v == 5:
		legs = append(legs, verifJLeg{key: rapid.SampledFrom(keys).Draw(t, "newkey")})
	case v == 6:
		n := 0
		if a, ok := at.([]interface{}); ok {
			n = len(a)
		} else {
			n = rapid.IntRange(0, 1).Draw(t, "idx01")
		}
		legs = append(legs, verifJLeg{isIdx: true, idx: n})
	case v == 7:
		n := 1
		if a, ok := at.([]interface{}); ok {
			n = len(a)
		}
		legs = append(legs, verifJLeg{isIdx: true, idx: n + rapid.IntRange(1, 3).Draw(t, "beyond")})
	case v == 8:
		raw := rapid.SampledFrom([]string{"last", "last-1", "last-0", "last-7"}).Draw(t, "last")
		if len(legs) > 0 && legs[len(legs)-1].isIdx && rapid.Bool().Draw(t, "replacelast") {
			legs[len(legs)-1] = verifJLeg{raw: raw}
		} else {
			legs = append(legs, verifJLeg{raw: raw})
		}
	case v == 9:
		// missing parent
		if len(legs) > 0 {
			legs = legs[:rapid.IntRange(0, len(legs)-1).Draw(t, "cut")]
		}
		legs = append(legs, verifJLeg{key: "nokey"})
		if rapid.Bool().Draw(t, "idxchild") {
			legs = append(legs, verifJLeg{isIdx: true, idx: rapid.IntRange(0, 1).Draw(t, "idx01")})
		} else {
			legs = append(legs, verifJLeg{key: rapid.SampledFrom(keys).Draw(t, "newkey")})
		}
	case v == 10:
		// into whatever is there (a scalar most of the time): member, then maybe one more level
		legs = append(legs, verifJLeg{key: rapid.SampledFrom(keys).Draw(t, "newkey")})
		if rapid.Bool().Draw(t, "deeper") {
			legs = append(legs, verifJLeg{key: rapid.SampledFrom(keys).Draw(t, "newkey2")})
		}
	case v == 11:
		legs = nil
	case v == 12:
		// [0] (auto-wrap) somewhere in the middle or at the end
		pos := rapid.IntRange(0, len(legs)).Draw(t, "wrap0pos")
		legs = append(legs[:pos:pos], append([]verifJLeg{{isIdx: true, idx: 0}}, legs[pos:]...)...)
	default:
		// sibling of the walked location: replace the last leg
		if len(legs) > 0 {
			if legs[len(legs)-1].isIdx {
				legs[len(legs)-1].idx += rapid.IntRange(-1, 1).Draw(t, "shift")
				if legs[len(legs)-1].idx < 0 {
					legs[len(legs)-1].idx = 0
				}
			} else {
				legs[len(legs)-1].key = rapid.SampledFrom(keys).Draw(t, "sibling")
			}
		}
	}
	for i := range legs {
		if !legs[i].isIdx && legs[i].raw == "" && rapid.IntRange(0, 7).Draw(t, "quote?") == 0 {
			legs[i].quote = true
		}
	}
	return verifJRenderPath(legs)
}

func c17GenOpValue(t *rapid.T, keys []string) interface{} {
	switch c := rapid.IntRange(0, 9).Draw(t, "valclass"); {
	case c < 6:
		return verifJGen{keys: keys, maxDepth: 2, maxWidth: 3}.value(t, 0)
	case c < 8:
		return verifJGen{keys: keys, maxDepth: 2, maxWidth: 3, padProb: 50, padMin: 300, padMax: 2500}.value(t, 0)
	default:
		g := verifJGen{keys: keys, maxDepth: 3, maxWidth: 6, padProb: 40, padMin: 200, padMax: 900}
		if rapid.Bool().Draw(t, "obj") {
			return g.object(t, 0, 2)
		}
		return g.array(t, 0, 2)
	}
}

// c17Beyond reports whether |path| addresses a location after the first chunk boundary of root.
func c17Beyond(root *Node, path string) bool {
	if root.Level() == 0 || root.Count() < 2 {
		return false
	}
	loc, err := jsonPathElementsFromMySQLJsonPath([]byte(path))
	if err != nil {
		return false
	}
	first := jsonPathFromKey(root.GetKey(0))
	cmp, err := compareJsonLocations(loc, first)
	return err == nil && cmp > 0
}

func c17Case(rt *rapid.T, rec *vh.Recorder) {
	ctx := sql.NewEmptyContext()
	ns := NewTestNodeStore()
	keys := verifJKeys
	doc, class := verifJDoc(rt, keys)
	docBytes := verifJMarshal(doc)

	stored, err := verifJStore(ctx, ns, doc)
	if err != nil {
		rt.Fatalf("SerializeJsonToAddr(%s): %v", verifJShort(docBytes), err)
	}
	// the stored bytes are the normalized text
	got, err := stored.GetBytes(ctx)
	if err != nil || string(got) != string(docBytes) {
		rt.Fatalf("stored document text differs from the marshalled value: err=%v\n got %s\nwant %s", err, verifJShort(got), verifJShort(docBytes))
	}
	nchunks := verifJChunks(stored.m.Root)

	cur := types.DeepCopyJson(doc) // model value
	var scur types.MutableJSON = stored
	var sIdx = stored
	nops := rapid.IntRange(1, 5).Draw(rt, "nops")
	var ops []string
	classes := map[string]bool{"size=" + class: true, fmt.Sprintf("chunks=%d", min(nchunks, 4)): true}
	nontrivial := false

	for i := 0; i < nops; i++ {
		kind := rapid.SampledFrom(c17Kinds).Draw(rt, "op")
		path := c17GenPath(rt, cur, keys, kind)
		op := c17Op{kind: kind, path: path}
		if kind != "Lookup" && kind != "Remove" {
			op.val = c17GenOpValue(rt, keys)
		}
		ops = append(ops, op.String())
		beyond := c17Beyond(sIdx.m.Root, path)

		memDoc := types.JSONDocument{Val: types.DeepCopyJson(cur)}
		var valWrap sql.JSONWrapper
		if op.val != nil || (kind != "Lookup" && kind != "Remove") {
			valWrap = types.JSONDocument{Val: types.DeepCopyJson(op.val)}
		}

		if kind == "Lookup" {
			sRes, sErr := sIdx.Lookup(ctx, path)
			mRes, mErr := memDoc.Lookup(ctx, path)
			if (sErr != nil) != (mErr != nil) {
				rt.Fatalf("Lookup(%s) on %s: stored err=%v, in-memory err=%v", path, verifJShort(verifJMarshal(cur)), sErr, mErr)
			}
			if sErr != nil {
				classes["lookup_error"] = true
				continue
			}
			sNil, mNil := sRes == nil, mRes == nil
			if sNil != mNil {
				rt.Fatalf("Lookup(%s) on %s: stored found=%v, in-memory found=%v", path, verifJShort(verifJMarshal(cur)), !sNil, !mNil)
			}
			if sNil {
				classes["lookup_miss"] = true
				continue
			}
			sv, err1 := verifJInterface(ctx, sRes)
			mv, err2 := verifJInterface(ctx, mRes)
			if err1 != nil || err2 != nil {
				rt.Fatalf("Lookup(%s): cannot decode results: %v / %v", path, err1, err2)
			}
			if !verifJEqual(sv, mv) {
				rt.Fatalf("Lookup(%s) on %s:\n stored    %s\n in-memory %s", path, verifJShort(verifJMarshal(cur)), verifJShort(verifJMarshal(sv)), verifJShort(verifJMarshal(mv)))
			}
			classes["lookup_hit"] = true
			if beyond {
				nontrivial = true
				classes["beyond_first_chunk"] = true
			}
			continue
		}

		var sRes, mRes types.MutableJSON
		var sCh, mCh bool
		var sErr, mErr error
		switch kind {
		case "Insert":
			sRes, sCh, sErr = sIdx.Insert(ctx, path, valWrap)
			mRes, mCh, mErr = memDoc.Insert(ctx, path, valWrap)
		case "Set":
			sRes, sCh, sErr = sIdx.Set(ctx, path, valWrap)
			mRes, mCh, mErr = memDoc.Set(ctx, path, valWrap)
		case "Replace":
			sRes, sCh, sErr = sIdx.Replace(ctx, path, valWrap)
			mRes, mCh, mErr = memDoc.Replace(ctx, path, valWrap)
		case "Remove":
			sRes, sCh, sErr = sIdx.Remove(ctx, path)
			mRes, mCh, mErr = memDoc.Remove(ctx, path)
		case "ArrayInsert":
			sRes, sCh, sErr = sIdx.ArrayInsert(ctx, path, valWrap)
			mRes, mCh, mErr = memDoc.ArrayInsert(ctx, path, valWrap)
		case "ArrayAppend":
			sRes, sCh, sErr = sIdx.ArrayAppend(ctx, path, valWrap)
			mRes, mCh, mErr = memDoc.ArrayAppend(ctx, path, valWrap)
		}
		where := fmt.Sprintf("%s on %s (after %v)", op, verifJShort(verifJMarshal(cur)), ops[:len(ops)-1])
		if (sErr != nil) != (mErr != nil) {
			rt.Fatalf("%s: stored err=%v, in-memory err=%v", where, sErr, mErr)
		}
		if sErr != nil {
			classes["op_error"] = true
			continue
		}
		if sCh != mCh {
			rt.Fatalf("%s: changed flag stored=%v in-memory=%v", where, sCh, mCh)
		}
		sv, err1 := verifJInterface(ctx, sRes)
		mv, err2 := verifJInterface(ctx, mRes)
		if err1 != nil || err2 != nil {
			rt.Fatalf("%s: cannot decode results: stored %v / in-memory %v", where, err1, err2)
		}
		if !verifJEqual(sv, mv) {
			rt.Fatalf("%s:\n stored    %s\n in-memory %s", where, verifJShort(verifJMarshal(sv)), verifJShort(verifJMarshal(mv)))
		}
		if c, err := types.CompareJSON(ctx, sRes, mRes); err != nil || c != 0 {
			rt.Fatalf("%s: CompareJSON(stored result, in-memory result) = %d, %v", where, c, err)
		}
		if !sCh && !verifJEqual(sv, cur) {
			rt.Fatalf("%s: changed=false but the document changed to %s", where, verifJShort(verifJMarshal(sv)))
		}
		want := verifJMarshal(mv)
		if idx, ok := sRes.(IndexedJsonDocument); ok {
			b, err := idx.GetBytes(ctx)
			if err != nil {
				rt.Fatalf("%s: GetBytes of the stored result: %v", where, err)
			}
			if string(b) != string(want) {
				rt.Fatalf("%s: stored result is JSON-equal but not the normalized text\n stored %s\n want   %s", where, verifJShort(b), verifJShort(want))
			}
			sIdx = idx
			scur = idx
			classes["indexed_result"] = true
		} else {
			// the operation fell back to the in-memory implementation; store the result again
			// the way writing it to a table and reading it back would
			sIdx, err = verifJStore(ctx, ns, mv)
			if err != nil {
				rt.Fatalf("%s: re-storing the result: %v", where, err)
			}
			scur = sIdx
			classes["fallback_result"] = true
		}
		if sCh {
			classes["changed:"+kind] = true
			if beyond {
				nontrivial = true
				classes["beyond_first_chunk"] = true
			}
		} else {
			classes["noop:"+kind] = true
		}
		cur = mv
	}
	_ = scur

	// Compare / Type / JsonType of first and last document
	first := types.JSONDocument{Val: types.DeepCopyJson(doc)}
	last := types.JSONDocument{Val: types.DeepCopyJson(cur)}
	wantCmp, err := types.CompareJSON(ctx, first.Val, last.Val)
	if err != nil {
		rt.Fatalf("CompareJSON(model): %v", err)
	}
	for _, c := range []struct {
		name  string
		other interface{}
	}{{"stored-vs-stored", sIdx}, {"stored-vs-memory", last}, {"stored-vs-raw-value", last.Val}} {
		gotCmp, err := stored.Compare(ctx, c.other)
		if err != nil {
			rt.Fatalf("Compare %s: %v (ops %v)", c.name, err, ops)
		}
		if (gotCmp == 0) != (wantCmp == 0) || (gotCmp < 0) != (wantCmp < 0) {
			rt.Fatalf("Compare %s: stored says %d, in-memory CompareJSON says %d\n first %s\n last  %s", c.name, gotCmp, wantCmp, verifJShort(docBytes), verifJShort(verifJMarshal(cur)))
		}
	}
	if wantCmp != 0 {
		classes["compare_unequal"] = true
	}
	jt, err := stored.JsonType(ctx)
	if err != nil {
		rt.Fatalf("JsonType: %v", err)
	}
	wantJT := map[string]string{"nil": "NULL", "bool": "BOOLEAN", "float64": "DOUBLE", "string": "STRING", "[]interface {}": "ARRAY", "map[string]interface {}": "OBJECT"}[fmt.Sprintf("%T", doc)]
	if doc == nil {
		wantJT = "NULL"
	}
	if jt != wantJT {
		rt.Fatalf("JsonType of %s = %q, want %q", verifJShort(docBytes), jt, wantJT)
	}

	var cl []string
	for c := range classes {
		cl = append(cl, c)
	}
	desc := fmt.Sprintf("doc %016x (%s, %d bytes, %d chunks) ops %s", verifJHash(docBytes), class, len(docBytes), nchunks, strings.Join(ops, "; "))
	rec.Case(desc, nontrivial, cl...)
}

func TestVerif_C17(t *testing.T) {
	rec := vh.NewRecorder("C17", "docs", "exploration", c17DocRule,
		"numbers are float64 (what types.JSON.Convert produces for JSON text); object keys come from a fixed alphabet without backslashes or control characters",
		"unquoted path members are ASCII identifiers; every other member name is written quoted with \\\" escaping")
	defer rec.Write(t)
	vh.Check(t, "docs", 1500, 6000, func(rt *rapid.T) { c17Case(rt, rec) })
}

var _ = context.Background
