package tree

// C16 (tree half, with the JSON/blob part of C12) — blobs and JSON values written through
// tree.NewBlobBuilder / SerializeBytesToAddr / SerializeJsonToAddr / PutField read back
// byte-for-byte (JSON: equal value and normalized text), and the stored tree address of a value
// does not depend on how the value was produced.

import (
	"bytes"
	"context"
	"encoding/json"
	"fmt"
	"io"
	"strconv"
	"strings"
	"testing"
	"unicode/utf8"

	"github.com/dolthub/go-mysql-server/sql"
	"github.com/dolthub/go-mysql-server/sql/types"
	"pgregory.net/rapid"

	"github.com/dolthub/dolt/go/store/hash"
	"github.com/dolthub/dolt/go/store/pool"
	"github.com/dolthub/dolt/go/store/val"
	"github.com/dolthub/dolt/go/zzverif/vh"
)

const c16Rule = "blob cases: a byte string (random bytes, one repeated byte, multi-byte UTF-8 text cut at every alignment, text with quotes/backslashes/NULs) of a size drawn around the tree's edges (0, 1, chunk-1, chunk, chunk+1, fan-out*chunk +-1, fan-out^2*chunk +-1, random up to 2 MiB quick / 16 MiB thorough) for a chunk size in {40,60,100,400,4000}; it is written with a fresh BlobBuilder fed from bytes.Reader, from strings.Reader and from a source that delivers randomly sized pieces (wrapped so that every Read is full, see assumptions), with a BlobBuilder reused after other blobs, and (chunk size 4000) with SerializeBytesToAddr, NodeStore.WriteBytes and PutField for bytes/text address columns: all addresses must be equal and ReadBytes/ByteArray/TextStorage/GetField must return the input. JSON cases: a generated value (sizes from a scalar to hundreds of KiB) is written from the value, from differently formatted texts of it (key order, whitespace, \\u escapes, number spellings) through types.JSON.Convert, from its normalized text as a LazyJSONDocument, through PutField for JSON address and adaptive columns, and by editing a stored neighbour document (member set/insert/remove, element replace) back into it: all JSON-tree addresses must be equal, the stored text must be the normalized text and GetField must return an equal value. Non-trivial: the value spans >= 2 chunks and >= 3 producers were compared; distinct by (kind, chunk size, size, content hash)."

const (
	c16FNonCanonical = "C16-json-edit-not-canonical" // a stored JSON document reached by Set/Insert/Remove has other chunk boundaries (another address) than the same value serialized directly
)

func c16Excluded(id string) bool {
	return vh.OpenFinding("C16", id)
}

// ---------------------------------------------------------------------------------------------
// blobs

type c16Xor uint64

func (x *c16Xor) next() uint64 {
	v := uint64(*x)
	v ^= v << 13
	v ^= v >> 7
	v ^= v << 17
	*x = c16Xor(v)
	return v
}

// c16Content expands (kind, seed, n) into n bytes deterministically.
func c16Content(kind string, seed uint64, n int) []byte {
	out := make([]byte, n)
	x := c16Xor(seed | 1)
	switch kind {
	case "random":
		for i := 0; i < n; i += 8 {
			v := x.next()
			for j := 0; j < 8 && i+j < n; j++ {
				out[i+j] = byte(v >> (8 * j))
			}
		}
	case "same":
		b := byte(seed)
		for i := range out {
			out[i] = b
		}
	case "utf8":
		// multi-byte runes; the seed shifts the alignment against chunk boundaries
		src := []byte(strings.Repeat("aé日😀ß", 1+int(seed%3)))
		off := int(seed % 11)
		for i := range out {
			out[i] = src[(i+off)%len(src)]
		}
	default: // "text"
		src := []byte("he said \"x\\y\"\x00'tab\there\n{\"k\":[1,2]}\\\\ ")
		off := int(seed % 17)
		for i := range out {
			out[i] = src[(i+off)%len(src)]
		}
	}
	return out
}

// c16Pieces delivers data in pieces of the given sizes (cyclic), like a network source.
type c16Pieces struct {
	data  []byte
	sizes []int
	i     int
}

func (p *c16Pieces) Read(b []byte) (int, error) {
	if len(p.data) == 0 {
		return 0, io.EOF
	}
	n := p.sizes[p.i%len(p.sizes)]
	p.i++
	n = min(n, len(b), len(p.data))
	copy(b, p.data[:n])
	p.data = p.data[n:]
	return n, nil
}

// c16Full makes every Read full (io.ReadFull), the behaviour of the bytes.Reader every caller
// of BlobBuilder.Chunk in dolt passes.
type c16Full struct{ r io.Reader }

func (f c16Full) Read(b []byte) (int, error) {
	n, err := io.ReadFull(f.r, b)
	if err == io.ErrUnexpectedEOF {
		err = nil
	}
	if n > 0 {
		return n, nil
	}
	return n, err
}

func c16Build(ctx context.Context, ns NodeStore, bb *BlobBuilder, r io.Reader, n int) (*Node, hash.Hash, error) {
	bb.Init(n)
	return bb.Chunk(ctx, r)
}

func c16BlobCase(rt *rapid.T, rec *vh.Recorder) {
	ctx := context.Background()
	ns := NewTestNodeStore()
	chunk := rapid.SampledFrom([]int{40, 60, 100, 400, 4000, 4000, 4000}).Draw(rt, "chunk") // (20 = one address per node: Init never terminates; not a usable size)
	fan := chunk / hash.ByteLen
	capSize := vh.N(2<<20, 16<<20)
	if chunk < 4000 {
		capSize = min(capSize, chunk*fan*fan*fan+chunk, 300_000)
	}
	edges := []int{0, 1, chunk - 1, chunk, chunk + 1, 2*chunk - 1, 2 * chunk, chunk*fan - 1, chunk * fan, chunk*fan + 1, chunk*fan + chunk, chunk*fan*fan - 1, chunk * fan * fan, chunk*fan*fan + 1}
	var size int
	if rapid.IntRange(0, 2).Draw(rt, "edge?") > 0 {
		size = rapid.SampledFrom(edges).Draw(rt, "edgesize")
		if size > capSize {
			size = chunk*fan + 1
		}
	} else if rapid.IntRange(0, 3).Draw(rt, "big?") == 0 {
		size = rapid.IntRange(0, capSize).Draw(rt, "size")
	} else {
		size = rapid.IntRange(0, min(capSize, 40*chunk)).Draw(rt, "size")
	}
	kind := rapid.SampledFrom([]string{"random", "same", "utf8", "text"}).Draw(rt, "content")
	seed := rapid.Uint64().Draw(rt, "seed")
	data := c16Content(kind, seed, size)

	fresh := func() *BlobBuilder {
		bb, err := NewBlobBuilder(chunk)
		if err != nil {
			rt.Fatalf("NewBlobBuilder(%d): %v", chunk, err)
		}
		bb.SetNodeStore(ns)
		return bb
	}
	type result struct {
		name string
		h    hash.Hash
	}
	var results []result
	add := func(name string, nd *Node, h hash.Hash, err error) {
		if err != nil {
			rt.Fatalf("%s (chunk %d, %d bytes of %s): %v", name, chunk, size, kind, err)
		}
		if size == 0 {
			if nd != nil || !h.IsEmpty() {
				rt.Fatalf("%s of an empty blob: node=%v hash=%s, want none", name, nd != nil, h)
			}
		} else if nd == nil || nd.HashOf() != h {
			rt.Fatalf("%s (chunk %d, %d bytes): returned node and hash do not belong together", name, chunk, size)
		}
		results = append(results, result{name, h})
	}
	nd, h, err := c16Build(ctx, ns, fresh(), bytes.NewReader(data), size)
	add("bytes.Reader", nd, h, err)
	nd, h, err = c16Build(ctx, ns, fresh(), strings.NewReader(string(data)), size)
	add("strings.Reader", nd, h, err)
	pieces := rapid.SliceOfN(rapid.SampledFrom([]int{1, 7, chunk - 1, chunk, chunk + 1, 4096, 65536}), 1, 5).Draw(rt, "pieces")
	nd, h, err = c16Build(ctx, ns, fresh(), c16Full{&c16Pieces{data: data, sizes: pieces}}, size)
	add("pieces+ReadFull", nd, h, err)
	// a builder that has built other blobs before (NodeStore.BlobBuilder() pools them)
	reused := fresh()
	for i, other := range rapid.SliceOfN(rapid.SampledFrom(edges[:11]), 1, 3).Draw(rt, "previous") {
		od := c16Content("random", seed+uint64(i), other)
		if _, _, err := c16Build(ctx, ns, reused, bytes.NewReader(od), other); err != nil {
			rt.Fatalf("previous blob of %d bytes: %v", other, err)
		}
		reused.Reset()
	}
	nd, h, err = c16Build(ctx, ns, reused, bytes.NewReader(data), size)
	add("reused builder", nd, h, err)

	classes := []string{"blob", fmt.Sprintf("chunk=%d", chunk), "content=" + kind}
	if chunk == DefaultFixedChunkLength {
		nd, h, err = SerializeBytesToAddr(ctx, ns, bytes.NewReader(data), size)
		add("SerializeBytesToAddr", nd, h, err)
		wh, err := ns.WriteBytes(ctx, data)
		if err != nil {
			rt.Fatalf("WriteBytes: %v", err)
		}
		results = append(results, result{"WriteBytes", wh})
		// PutField / GetField through address columns
		for _, enc := range []val.Encoding{val.BytesAddrEnc, val.StringAddrEnc} {
			if enc == val.StringAddrEnc && !utf8.Valid(data) {
				continue
			}
			td := val.NewTupleDescriptor(val.Type{Enc: enc, Nullable: true})
			tb := val.NewTupleBuilder(td, ns)
			var in interface{} = data
			if enc == val.StringAddrEnc {
				in = string(data)
			}
			if err := PutField(ctx, ns, tb, 0, in); err != nil {
				rt.Fatalf("PutField(%v, %d bytes): %v", enc, size, err)
			}
			tup, err := tb.Build(ctx, pool.NewBuffPool())
			if err != nil {
				rt.Fatalf("Build: %v", err)
			}
			fh, ok := td.GetAddr(0, tup)
			if !ok {
				rt.Fatalf("PutField(%v, %d bytes) stored NULL", enc, size)
			}
			results = append(results, result{fmt.Sprintf("PutField(%v)", enc), fh})
			got, err := GetField(ctx, td, 0, tup, ns)
			if err != nil {
				rt.Fatalf("GetField(%v): %v", enc, err)
			}
			var back []byte
			switch g := got.(type) {
			case *val.ByteArray:
				back, err = g.ToBytes(ctx)
			case *val.TextStorage:
				var s string
				s, err = g.Unwrap(ctx)
				back = []byte(s)
			default:
				rt.Fatalf("GetField(%v) returned %T", enc, got)
			}
			if err != nil || !bytes.Equal(back, data) {
				rt.Fatalf("GetField(%v) of %d bytes of %s: err=%v, %d bytes back, equal=%v", enc, size, kind, err, len(back), bytes.Equal(back, data))
			}
		}
		classes = append(classes, "putfield")
	}
	for _, r := range results[1:] {
		if r.h != results[0].h {
			rt.Fatalf("blob of %d bytes (%s, chunk size %d): address from %s is %s but from %s it is %s", size, kind, chunk, results[0].name, results[0].h, r.name, r.h)
		}
	}
	// read back
	if size > 0 {
		back, err := ns.ReadBytes(ctx, results[0].h)
		if err != nil || !bytes.Equal(back, data) {
			rt.Fatalf("ReadBytes of a %d byte blob (%s, chunk size %d): err=%v, %d bytes back, first difference at %d", size, kind, chunk, err, len(back), c16FirstDiff(back, data))
		}
	}
	back, err := val.NewByteArray(results[0].h, ns).ToBytes(ctx)
	if err != nil || !bytes.Equal(back, data) {
		rt.Fatalf("ByteArray.ToBytes of a %d byte blob: err=%v, %d bytes back", size, err, len(back))
	}
	// a source with short reads is outside the domain (see assumptions); record what it does
	if size > 1 {
		_, sh, err := c16Build(ctx, ns, fresh(), &c16Pieces{data: data, sizes: pieces}, size)
		if err == nil && sh != results[0].h {
			classes = append(classes, "short_reads_change_address(not asserted)")
		}
	}
	nchunks := (size + chunk - 1) / chunk
	classes = append(classes, fmt.Sprintf("levels=%d", c16Levels(nchunks, fan)))
	desc := fmt.Sprintf("blob %s seed=%x size=%d chunk=%d pieces=%v", kind, seed, size, chunk, pieces)
	rec.Case(desc, nchunks >= 2 && len(results) >= 3, classes...)
}

func c16Levels(nchunks, fan int) int {
	l := 0
	for nchunks > 1 {
		nchunks = (nchunks + fan - 1) / fan
		l++
	}
	return l
}

func c16FirstDiff(a, b []byte) int {
	for i := 0; i < len(a) && i < len(b); i++ {
		if a[i] != b[i] {
			return i
		}
	}
	return min(len(a), len(b))
}

// ---------------------------------------------------------------------------------------------
// JSON

// c16Render writes v as JSON text with drawn formatting: member order, whitespace, string
// escapes and number spellings vary; the value does not.
func c16Render(t *rapid.T, v interface{}, b *strings.Builder, style int) {
	ws := func() {
		if style > 0 {
			b.WriteString(rapid.SampledFrom([]string{"", "", " ", "\n", "\t ", "  \r\n"}).Draw(t, "ws"))
		}
	}
	switch x := v.(type) {
	case nil:
		b.WriteString("null")
	case bool:
		b.WriteString(strconv.FormatBool(x))
	case float64:
		canon := strconv.FormatFloat(x, 'g', -1, 64)
		forms := []string{canon, strconv.FormatFloat(x, 'e', -1, 64), strconv.FormatFloat(x, 'E', -1, 64)}
		if x == float64(int64(x)) && x > -1e15 && x < 1e15 {
			i := int64(x)
			forms = append(forms, fmt.Sprintf("%d", i), fmt.Sprintf("%d.0", i), fmt.Sprintf("%de0", i), fmt.Sprintf("%d.000E+00", i))
		}
		f := forms[0]
		if style > 0 {
			f = rapid.SampledFrom(forms).Draw(t, "numform")
		}
		if pf, err := strconv.ParseFloat(f, 64); err != nil || pf != x {
			f = canon
		}
		b.WriteString(f)
	case string:
		b.WriteByte('"')
		esc := 0
		if style > 0 {
			esc = rapid.IntRange(0, 2).Draw(t, "escstyle")
		}
		for _, r := range x {
			switch {
			case r == '"':
				b.WriteString(`\"`)
			case r == '\\':
				b.WriteString(`\\`)
			case r == '/' && esc == 2:
				b.WriteString(`\/`)
			case r == '\n' && esc != 1:
				b.WriteString(`\n`)
			case r == '\t' && esc != 1:
				b.WriteString(`\t`)
			case r < 0x20:
				fmt.Fprintf(b, `\u%04x`, r)
			case r == utf8.RuneError:
				b.WriteString(`�`)
			case r >= 0x80 && esc == 1 && r < 0x10000:
				fmt.Fprintf(b, `\u%04X`, r)
			case r >= 0x10000 && esc == 1:
				r -= 0x10000
				fmt.Fprintf(b, `\u%04x\u%04x`, 0xD800+(r>>10), 0xDC00+(r&0x3FF))
			default:
				b.WriteRune(r)
			}
		}
		b.WriteByte('"')
	case []interface{}:
		b.WriteByte('[')
		for i, e := range x {
			if i > 0 {
				b.WriteByte(',')
			}
			ws()
			c16Render(t, e, b, style)
			ws()
		}
		if len(x) == 0 {
			ws()
		}
		b.WriteByte(']')
	case map[string]interface{}:
		ks := verifJSortedKeys(x)
		if style > 0 && len(ks) > 1 {
			ks = rapid.Permutation(ks).Draw(t, "memberorder")
		}
		b.WriteByte('{')
		for i, k := range ks {
			if i > 0 {
				b.WriteByte(',')
			}
			ws()
			c16Render(t, k, b, style)
			ws()
			b.WriteByte(':')
			ws()
			c16Render(t, x[k], b, style)
			ws()
		}
		if len(ks) == 0 {
			ws()
		}
		b.WriteByte('}')
	}
}

// c16Big builds a value of hundreds of KiB from generated parts.
func c16Big(t *rapid.T, keys []string) interface{} {
	g := verifJGen{keys: keys, maxDepth: 4, maxWidth: 5, padProb: 50, padMin: 200, padMax: 3000}
	parts := make([]interface{}, rapid.IntRange(3, 8).Draw(t, "nparts"))
	for i := range parts {
		parts[i] = g.value(t, 1)
	}
	n := rapid.IntRange(20, vh.N(150, 600)).Draw(t, "repeat")
	if rapid.Bool().Draw(t, "bigobj") {
		m := map[string]interface{}{}
		for i := 0; i < n; i++ {
			m[fmt.Sprintf("%s%03d", keys[i%len(keys)], i)] = types.DeepCopyJson(parts[i%len(parts)])
		}
		return m
	}
	a := make([]interface{}, n)
	for i := range a {
		a[i] = types.DeepCopyJson(parts[(i*7)%len(parts)])
	}
	return a
}

func c16JsonCase(rt *rapid.T, rec *vh.Recorder) {
	ctx := context.Background()
	ns := NewTestNodeStore()
	keys := verifJKeys
	var v interface{}
	class := ""
	if rapid.IntRange(0, 7).Draw(rt, "huge?") == 0 {
		v, class = c16Big(rt, keys), "huge"
	} else {
		v, class = verifJDoc(rt, keys)
	}
	norm := verifJMarshal(v)
	root, err := SerializeJsonToAddr(ctx, ns, types.JSONDocument{Val: types.DeepCopyJson(v)})
	if err != nil {
		rt.Fatalf("SerializeJsonToAddr: %v", err)
	}
	want := root.HashOf()
	nchunks := verifJChunks(root)
	producers := 1
	same := func(name string, h hash.Hash) {
		producers++
		if h != want {
			rt.Fatalf("JSON value %s (%d bytes, %d chunks): address from the value is %s, from %s it is %s", verifJShort(norm), len(norm), nchunks, want, name, h)
		}
	}
	// stored text is the normalized text; the index describes it
	stored := NewIndexedJsonDocument(root, ns)
	if b, err := stored.GetBytes(ctx); err != nil || !bytes.Equal(b, norm) {
		rt.Fatalf("stored JSON text differs from the normalized text (err=%v): first difference at byte %d of %d", err, c16FirstDiff(b, norm), len(norm))
	}
	if bad := verifJCheckIndex(ctx, ns, root, true); bad != "" {
		rt.Fatalf("freshly stored JSON document (%d bytes): %s", len(norm), bad)
	}

	// differently formatted texts of the same value
	ntexts := rapid.IntRange(1, 3).Draw(rt, "ntexts")
	for i := 0; i < ntexts; i++ {
		var sb strings.Builder
		style := 1
		if i == 0 && rapid.Bool().Draw(rt, "indent") {
			ib, _ := json.MarshalIndent(v, "", "  ")
			sb.Write(ib)
			style = 2
		} else {
			c16Render(rt, v, &sb, 1)
		}
		conv, _, err := types.JSON.Convert(ctx, sb.String())
		if err != nil {
			rt.Fatalf("types.JSON.Convert of a rendered text: %v\n%s", err, verifJShort([]byte(sb.String())))
		}
		cv, _ := conv.(sql.JSONWrapper).ToInterface(ctx)
		if !verifJEqual(cv, v) {
			// the renderer changed the value: a harness error, not a finding
			rt.Fatalf("harness: rendered text does not decode to the value\n%s", verifJShort([]byte(sb.String())))
		}
		r2, err := SerializeJsonToAddr(ctx, ns, conv.(sql.JSONWrapper))
		if err != nil {
			rt.Fatalf("SerializeJsonToAddr(converted text): %v", err)
		}
		same(fmt.Sprintf("text style %d (%d bytes)", style, sb.Len()), r2.HashOf())
	}
	// the normalized text as dolt's own lazy wrapper (what Lookup results are)
	r3, err := SerializeJsonToAddr(ctx, ns, types.NewLazyJSONDocument(norm))
	if err != nil {
		rt.Fatalf("SerializeJsonToAddr(LazyJSONDocument): %v", err)
	}
	same("LazyJSONDocument(normalized text)", r3.HashOf())
	r4, _ := SerializeJsonToAddr(ctx, ns, stored)
	same("IndexedJsonDocument passthrough", r4.HashOf())

	// PutField / GetField: JSON address column
	classes := []string{"json", "size=" + class, fmt.Sprintf("chunks=%d", min(nchunks, 5))}
	{
		td := val.NewTupleDescriptor(val.Type{Enc: val.JSONAddrEnc, Nullable: true})
		for _, in := range []interface{}{types.JSONDocument{Val: types.DeepCopyJson(v)}, string(norm)} {
			tb := val.NewTupleBuilder(td, ns)
			if err := PutField(ctx, ns, tb, 0, in); err != nil {
				rt.Fatalf("PutField(JSONAddrEnc, %T): %v", in, err)
			}
			tup, err := tb.Build(ctx, pool.NewBuffPool())
			if err != nil {
				rt.Fatalf("Build: %v", err)
			}
			h, ok := td.GetJSONAddr(0, tup)
			if !ok {
				rt.Fatalf("PutField(JSONAddrEnc) stored NULL")
			}
			same(fmt.Sprintf("PutField(JSONAddrEnc, %T)", in), h)
			got, err := GetField(ctx, td, 0, tup, ns)
			if err != nil {
				rt.Fatalf("GetField(JSONAddrEnc): %v", err)
			}
			gv, err := verifJInterface(ctx, got.(sql.JSONWrapper))
			if err != nil || !verifJEqual(gv, v) {
				rt.Fatalf("GetField(JSONAddrEnc) of %s: err=%v, value differs", verifJShort(norm), err)
			}
			if gb, ok := got.(types.JSONBytes); ok {
				if b, err := gb.GetBytes(ctx); err != nil || !bytes.Equal(b, norm) {
					rt.Fatalf("GetField(JSONAddrEnc).GetBytes differs from the normalized text (err=%v)", err)
				}
			}
		}
	}
	// adaptive column: inline or out of band, the value must come back
	{
		td := val.NewTupleDescriptor(val.Type{Enc: val.JsonAdaptiveEnc, Nullable: true})
		tb := val.NewTupleBuilder(td, ns)
		if err := PutField(ctx, ns, tb, 0, types.JSONDocument{Val: types.DeepCopyJson(v)}); err != nil {
			rt.Fatalf("PutField(JsonAdaptiveEnc): %v", err)
		}
		tup, err := tb.Build(ctx, pool.NewBuffPool())
		if err != nil {
			rt.Fatalf("Build(adaptive): %v", err)
		}
		got, err := GetField(ctx, td, 0, tup, ns)
		if err != nil || got == nil {
			rt.Fatalf("GetField(JsonAdaptiveEnc): %v, %v", got, err)
		}
		gv, err := verifJInterface(ctx, got.(sql.JSONWrapper))
		if err != nil || !verifJEqual(gv, v) {
			rt.Fatalf("GetField(JsonAdaptiveEnc) of %s (%d bytes): err=%v, value differs: %s", verifJShort(norm), len(norm), err, verifJShort(verifJMarshal(gv)))
		}
		if len(norm)+1 > int(val.DefaultTupleLengthTarget) {
			classes = append(classes, "adaptive_out_of_band")
		} else {
			classes = append(classes, "adaptive_inline")
		}
	}

	// the value reached by editing a stored neighbour document
	if m := c16EditRoute(rt, ctx, ns, v, want); m != "" {
		classes = append(classes, m)
		if strings.HasPrefix(m, "excluded:") {
			rec.Excluded(1)
		}
		if strings.HasPrefix(m, "edit:") {
			producers++
		}
	}
	desc := fmt.Sprintf("json %016x size=%d chunks=%d producers=%d", verifJHash(norm), len(norm), nchunks, producers)
	rec.Case(desc, nchunks >= 2 && producers >= 3, classes...)
}

// c16EditRoute stores a neighbour of v (one member or element different), edits it back into v
// with the stored document's own operations and compares the address with want. It returns a
// class label ("edit:…" when the comparison was made).
func c16EditRoute(rt *rapid.T, ctx context.Context, ns NodeStore, v interface{}, want hash.Hash) string {
	if c16Excluded(c16FNonCanonical) {
		return "excluded:" + c16FNonCanonical
	}
	legs, at := verifJWalk(rt, v, 5)
	if len(legs) == 0 {
		return "edit_none"
	}
	path := verifJRenderPath(legs)
	last := legs[len(legs)-1]
	neighbour := types.DeepCopyJson(v)
	parentLegs := legs[:len(legs)-1]
	var parent interface{} = neighbour
	for _, l := range parentLegs {
		if l.isIdx {
			parent = parent.([]interface{})[l.idx]
		} else {
			parent = parent.(map[string]interface{})[l.key]
		}
	}
	other := verifJGen{keys: verifJKeys, maxDepth: 2, maxWidth: 3, padProb: 30, padMin: 100, padMax: 1500}.value(rt, 0)
	var route string
	var apply func(d IndexedJsonDocument) (types.MutableJSON, bool, error)
	atWrap := types.JSONDocument{Val: types.DeepCopyJson(at)}
	if last.isIdx {
		// neighbour has another value in that element; Replace puts the original back
		if verifJEqual(other, at) {
			return "edit_none"
		}
		parent.([]interface{})[last.idx] = other
		route = "edit:replace_element"
		apply = func(d IndexedJsonDocument) (types.MutableJSON, bool, error) { return d.Replace(ctx, path, atWrap) }
	} else {
		pm := parent.(map[string]interface{})
		switch rapid.IntRange(0, 2).Draw(rt, "editroute") {
		case 0:
			if verifJEqual(other, at) {
				return "edit_none"
			}
			pm[last.key] = other
			route = "edit:set_member"
			apply = func(d IndexedJsonDocument) (types.MutableJSON, bool, error) { return d.Set(ctx, path, atWrap) }
		case 1:
			delete(pm, last.key)
			route = "edit:insert_member"
			apply = func(d IndexedJsonDocument) (types.MutableJSON, bool, error) { return d.Insert(ctx, path, atWrap) }
		default:
			extra := "zz_extra"
			if _, exists := pm[extra]; exists {
				return "edit_none"
			}
			pm[extra] = other
			route = "edit:remove_member"
			rp := verifJRenderPath(append(append([]verifJLeg{}, parentLegs...), verifJLeg{key: extra}))
			apply = func(d IndexedJsonDocument) (types.MutableJSON, bool, error) { return d.Remove(ctx, rp) }
		}
	}
	nd, err := verifJStore(ctx, ns, neighbour)
	if err != nil {
		rt.Fatalf("storing the neighbour document: %v", err)
	}
	// known chunk-layout findings of C17 make the edit itself fail; they are that check's business
	if len(c17ArrayEdges(sql.NewEmptyContext(), nd)) > 0 {
		return "edit_skipped_array_edge"
	}
	var res types.MutableJSON
	var changed bool
	if p := c17Recover(func() { res, changed, err = apply(nd.Clone(ctx).(IndexedJsonDocument)) }); p != "" {
		return "edit_panicked(C17's business)"
	}
	if err != nil || !changed {
		return "edit_failed(C17's business)"
	}
	idx, ok := res.(IndexedJsonDocument)
	if !ok {
		return "edit_fell_back"
	}
	rv, err := verifJInterface(ctx, idx)
	if err != nil || !verifJEqual(rv, v) {
		return "edit_wrong_value(C17's business)"
	}
	if idx.m.Root.HashOf() != want {
		rt.Fatalf("JSON value %s (%d bytes): serialized directly its tree address is %s, reached by %s(%s) from a stored neighbour document it is %s (same text, other chunk boundaries or index keys: %s)",
			verifJShort(verifJMarshal(v)), len(verifJMarshal(v)), want, route, path, idx.m.Root.HashOf(), c16DescribeDiff(ctx, ns, idx.m.Root, want))
	}
	return route
}

func c16DescribeDiff(ctx context.Context, ns NodeStore, got *Node, want hash.Hash) string {
	wn, err := ns.Read(ctx, want)
	if err != nil {
		return err.Error()
	}
	sizes := func(n *Node) (out []int) {
		_ = WalkNodes(ctx, n, ns, func(ctx context.Context, c *Node) error {
			if c.IsLeaf() {
				out = append(out, len(c.GetValue(0)))
			}
			return nil
		})
		return
	}
	idx := verifJCheckIndex(ctx, ns, got, true)
	if idx == "" {
		idx = "index keys consistent"
	}
	return fmt.Sprintf("leaf sizes direct %v, edited %v; %s", sizes(wn), sizes(got), idx)
}

// c16Pinned searches a deterministic family of documents for an instance of the finding
// c16FNonCanonical: a member is set to another value and back with the stored document's Set.
func c16Pinned(t *testing.T) {
	ctx := context.Background()
	ns := NewTestNodeStore()
	tried := 0
	for l := 100; l < 700; l += 10 {
		v := map[string]interface{}{}
		for i := 0; i < 30; i++ {
			v[fmt.Sprintf("k%03d", i)] = c17Pad((i*i*37+l*13)%900 + 20)
		}
		direct, err := verifJStore(ctx, ns, v)
		if err != nil {
			t.Fatal(err)
		}
		for _, j := range []int{3, 9, 14, 22, 29} {
			tried++
			name := fmt.Sprintf("k%03d", j)
			neighbour := types.DeepCopyJson(v).(map[string]interface{})
			neighbour[name] = "x"
			nd, err := verifJStore(ctx, ns, neighbour)
			if err != nil {
				t.Fatal(err)
			}
			var res types.MutableJSON
			if p := c17Recover(func() {
				res, _, err = nd.Clone(ctx).(IndexedJsonDocument).Set(ctx, "$."+name, types.JSONDocument{Val: v[name]})
			}); p != "" || err != nil {
				continue
			}
			idx, ok := res.(IndexedJsonDocument)
			if !ok {
				continue
			}
			rv, err := verifJInterface(ctx, idx)
			if err != nil || !verifJEqual(rv, v) || idx.m.Root.HashOf() == direct.m.Root.HashOf() {
				continue
			}
			msg := fmt.Sprintf("object of 30 string members (%d bytes): serialized directly its address is %s; after Set($.%s, \"x\") … Set($.%s, <original %d-byte string>) on the stored document the same value has address %s (%s)",
				len(verifJMarshal(v)), direct.m.Root.HashOf(), name, name, len(v[name].(string)), idx.m.Root.HashOf(), c16DescribeDiff(ctx, ns, idx.m.Root, direct.m.Root.HashOf()))
			if c16Excluded(c16FNonCanonical) {
				vh.ReportKnown("C16", c16FNonCanonical, msg)
				return
			}
			detail, _ := json.Marshal(map[string]string{"finding": c16FNonCanonical, "reproduction": msg})
			vh.NoteViolation(t.Name()+"/"+c16FNonCanonical, "", string(detail))
			t.Errorf("pinned %s: %s", c16FNonCanonical, msg)
			return
		}
	}
	t.Logf("pinned %s: not reproduced on %d instances", c16FNonCanonical, tried)
}

func TestVerif_C16_tree(t *testing.T) {
	rec := vh.NewRecorder("C16", "tree", "exploration", c16Rule,
		"readers handed to BlobBuilder.Chunk fill the buffer on every Read except at the end of the data (bytes.Reader semantics): the leaf writer issues one Read per chunk, and every caller in dolt passes a bytes.Reader; what a short-reading source does is recorded in the class histogram, not asserted",
		"blob addresses are compared between producers using the same chunk size (the chunk size is part of the format; dolt always uses 4000)",
		"JSON texts are generated from the value (member order, whitespace, escapes, number spellings vary); duplicate member names are not generated",
		"the edit route compares addresses only when the edit stayed on the stored implementation, succeeded and produced the value (anything else is C17's subject)")
	defer rec.Write(t)
	t.Run("pinned", c16Pinned)
	vh.Check(t, "blob", 500, 2500, func(rt *rapid.T) { c16BlobCase(rt, rec) })
	vh.Check(t, "json", 500, 2500, func(rt *rapid.T) { c16JsonCase(rt, rec) })
}
