package nbs

// C02 — root commit is an atomic compare-and-swap; acknowledged commits persist.
//
// Deterministic part (quick + thorough): K separately opened stores ("handles") on one
// directory run a rapid-drawn interleaving of put / commit(newRoot,last) / rebase / reopen /
// fresh-open-and-check. A sequential CAS-register model says what the persisted state is;
// after every commit a *fresh* open of the directory must agree with it.

import (
	"bytes"
	"context"
	"errors"
	"fmt"
	"os"
	"path/filepath"
	"strings"
	"sync/atomic"
	"testing"
	"time"

	"github.com/sirupsen/logrus"
	"pgregory.net/rapid"

	dherrors "github.com/dolthub/dolt/go/libraries/utils/errors"
	"github.com/dolthub/dolt/go/store/chunks"
	"github.com/dolthub/dolt/go/store/constants"
	"github.com/dolthub/dolt/go/store/hash"
	"github.com/dolthub/dolt/go/zzverif/vh"
)

const c02Rule = "2-4 separately opened stores on one directory (file-manifest stores that may all write, memtable 4KiB/64KiB/1MiB (every chunk is smaller than the memtable), manifest pre-created or not; or one journal writer plus read-only journal openers) run 8-30 (journal: 8-16) drawn steps: put(1-4 chunks), commit(newRoot in {fresh chunk put on this handle, an older root, ==last, never-put address}, last in {handle's cached root, true persisted root, older root, zero}), rebase, close+reopen, fresh open+check, ConjoinTableFiles of 2..n upstream tables on a possibly stale file-manifest handle, and (conjoin threshold maxTables in {2,3,4,1024}; parked conjoins still in flight are landed before a close and before the final fresh open) the automatic conjoin a commit starts, parked at the repository's ConjoinAll test hook and landed at a drawn later step. Oracle: a conjoin never changes the persisted root or any committed chunk (fresh open after it lands); sequential CAS register (root, committed chunk set); commit==true requires last==persisted root just before; after every commit a fresh open must see the model root and read every committed chunk byte for byte; false/error must leave the fresh view unchanged; a handle nobody has published past must succeed when last==persisted root; Root() of a handle is always a root published at or after its last sync. Non-trivial: the history has >=1 failed CAS (handle used its own cached root as last) caused by another handle's successful publish, and >=1 close+reopen between two successful commits; distinct by the hash of (configuration, step sequence with outcomes)."

type c02Version struct {
	root hash.Hash
	by   int // publishing handle, -1 for the initial state
}

type c02Model struct {
	versions  []c02Version
	committed map[hash.Hash][]byte
	order     []hash.Hash
}

func (m *c02Model) root() hash.Hash { return m.versions[len(m.versions)-1].root }
func (m *c02Model) cur() int        { return len(m.versions) - 1 }
func (m *c02Model) commitChunk(h hash.Hash, data []byte) {
	if _, ok := m.committed[h]; !ok {
		m.committed[h] = data
		m.order = append(m.order, h)
	}
}

type c02Handle struct {
	idx       int
	kind      string // "file", "jw" (journal writer), "jr" (read-only journal opener)
	st        *NomsBlockStore
	memSz     uint64
	pending   map[hash.Hash][]byte // chunks that must be readable after this handle's next successful commit
	pendOrder []hash.Hash
	novel     bool // a Put happened since the last successful commit / reopen
	synced    int  // model version at the last open / rebase / own successful commit
	maxTables int  // conjoin threshold of a file-manifest store
	gate      chan struct{}
	gateOn    atomic.Bool // an automatic conjoin of this store parks in ConjoinAll until released
}

func (h *c02Handle) clearPending() {
	h.pending = map[hash.Hash][]byte{}
	h.pendOrder = nil
}

type c02Case struct {
	ctx     context.Context
	t       *testing.T
	rt      *rapid.T
	dir     string
	journal bool
	m       *c02Model
	hs      []*c02Handle
	gen     *verifMChunkGen
	ops     []string
	classes map[string]bool

	successes         int
	failedByOther     int
	reopenAfterCommit bool // a reopen happened after >=1 successful commit
	reopenBetween     bool // ... and a successful commit followed it
	freshChecks       int
	excluded          int
}

func (c *c02Case) op(format string, a ...any) { c.ops = append(c.ops, fmt.Sprintf(format, a...)) }

func (c *c02Case) open(h *c02Handle) {
	var err error
	if c.journal {
		h.st, err = verifMOpenJournal(c.ctx, c.dir)
		if err == nil {
			// force the lazy load so that the access mode is decided now
			_, err = h.st.Root(c.ctx)
		}
	} else {
		h.st, err = verifMOpenFile(c.ctx, c.dir, h.memSz, h.maxTables)
		if err == nil {
			// The repository's own hook in fsTablePersister.ConjoinAll (after the conjoined file
			// is renamed into place, before it is opened) lets the schedule decide when the
			// automatic conjoin started by a commit lands in the manifest.
			h.gate = make(chan struct{})
			h.gateOn.Store(true)
			gate, on := h.gate, &h.gateOn
			h.st.persister.(*fsTablePersister)._testFtpConjoinAfterRenameHook = func() {
				if on.Load() {
					<-gate
				}
			}
		}
	}
	if err != nil {
		c.rt.Fatalf("open handle %d (%s): %v  [history: %s]", h.idx, h.kind, err, strings.Join(c.ops, " "))
	}
	h.clearPending()
	h.novel = false
	h.synced = c.m.cur()
}

func (c *c02Case) closeAll() {
	for _, h := range c.hs {
		if h.st != nil {
			c.release(h)
			_ = h.st.Close()
			h.st = nil
		}
	}
}

// conjoinPending reports whether a background conjoin of h is in flight.
func (c *c02Case) conjoinPending(h *c02Handle) bool {
	if h.kind != "file" || h.st == nil {
		return false
	}
	h.st.mu.RLock()
	defer h.st.mu.RUnlock()
	return h.st.conjoinOp != nil
}

// release lets a parked automatic conjoin of h run to completion (it lands in the manifest
// through finalizeConjoin) and waits for it. Returns whether one was in flight.
func (c *c02Case) release(h *c02Handle) bool {
	if !c.conjoinPending(h) {
		return false
	}
	c.classes["auto_conjoin_released"] = true
	if h.synced < c.m.cur() {
		c.classes["auto_conjoin_released_on_stale_handle"] = true
	}
	deadline := time.Now().Add(60 * time.Second)
	for c.conjoinPending(h) {
		select {
		case h.gate <- struct{}{}:
		default:
			time.Sleep(100 * time.Microsecond)
		}
		if time.Now().After(deadline) {
			vh.Inconclusive(c.t, "background conjoin of handle %d did not finish within 60 s", h.idx)
		}
	}
	return true
}

// stepSettle: the automatic conjoin of h, if one is parked, lands now. A conjoin only swaps
// table files: the persisted root and every committed chunk must be untouched.
func (c *c02Case) stepSettle(h *c02Handle) {
	if !c.release(h) {
		c.op("s%d(none)", h.idx)
		return
	}
	c.op("s%d", h.idx)
	c.classes["auto_conjoin_landed"] = true
	if h.synced < c.m.cur() {
		c.classes["auto_conjoin_landed_on_stale_handle"] = true
	}
	c.handleRoot(h)
	c.freshCheck(fmt.Sprintf("the automatic conjoin of handle %d landed (step %d)", h.idx, len(c.ops)))
}

// stepConjoin: ConjoinTableFiles of 2..n of the tables h believes are upstream; h may be stale.
func (c *c02Case) stepConjoin(h *c02Handle) {
	c.release(h)
	specs := h.st.upstream.specs
	if len(specs) < 2 {
		c.op("j%d(skip)", h.idx)
		return
	}
	n := rapid.IntRange(2, len(specs)).Draw(c.rt, "conjoinN")
	first := rapid.IntRange(0, len(specs)-n).Draw(c.rt, "conjoinFirst")
	var ids []hash.Hash
	for _, sp := range specs[first : first+n] {
		ids = append(ids, sp.name)
	}
	stale := h.synced < c.m.cur()
	h.gateOn.Store(false)
	_, err := h.st.ConjoinTableFiles(c.ctx, ids)
	h.gateOn.Store(true)
	res := "T"
	if err != nil {
		res = "E"
	}
	c.op("j%d(%d of %d,stale=%v)=%s", h.idx, n, len(specs), stale, res)
	c.classes["conjoin="+res] = true
	if stale && err == nil {
		c.classes["conjoin_on_stale_handle"] = true
	}
	c.handleRoot(h)
	c.freshCheck(fmt.Sprintf("ConjoinTableFiles by handle %d (step %d)", h.idx, len(c.ops)))
}

// checkView: st must show the model's root and every committed chunk with the model's bytes.
func (c *c02Case) checkView(st *NomsBlockStore, who string) {
	r, err := st.Root(c.ctx)
	if err != nil {
		c.rt.Fatalf("%s: Root: %v  [history: %s]", who, err, strings.Join(c.ops, " "))
	}
	if r != c.m.root() {
		c.rt.Fatalf("%s sees root %s, model root is %s (version %d)  [history: %s]", who, verifMShort(r), verifMShort(c.m.root()), c.m.cur(), strings.Join(c.ops, " "))
	}
	for _, a := range c.m.order {
		got, err := st.Get(c.ctx, a)
		if err != nil {
			c.rt.Fatalf("%s: Get(%s): %v  [history: %s]", who, verifMShort(a), err, strings.Join(c.ops, " "))
		}
		if got.IsEmpty() || !bytes.Equal(got.Data(), c.m.committed[a]) {
			c.rt.Fatalf("%s: committed chunk %s unreadable or altered (got %d bytes, want %d)  [history: %s]  dir:%s", who, verifMShort(a), len(got.Data()), len(c.m.committed[a]), strings.Join(c.ops, " "), verifMDirSummary(c.dir))
		}
	}
}

// freshCheck opens the directory the way another process would and checks the view.
func (c *c02Case) freshCheck(after string) {
	var st *NomsBlockStore
	var err error
	if c.journal {
		st, err = verifMOpenJournal(c.ctx, c.dir)
	} else {
		st, err = verifMOpenFile(c.ctx, c.dir, 1<<16, 1024)
	}
	if err != nil {
		c.rt.Fatalf("fresh open after %s failed: %v  [history: %s]  dir:%s", after, err, strings.Join(c.ops, " "), verifMDirSummary(c.dir))
	}
	defer st.Close()
	c.checkView(st, "fresh open after "+after)
	c.freshChecks++
}

// handleRootOK: Root() of a handle is the root of some version published at or after the
// handle's last sync (open, Rebase, own successful commit); failed commits may also rebase.
func (c *c02Case) handleRoot(h *c02Handle) hash.Hash {
	r, err := h.st.Root(c.ctx)
	if err != nil {
		c.rt.Fatalf("handle %d Root: %v", h.idx, err)
	}
	ok := false
	for v := h.synced; v <= c.m.cur(); v++ {
		if c.m.versions[v].root == r {
			ok = true
			break
		}
	}
	if !ok {
		c.rt.Fatalf("handle %d Root()=%s is not a root published since its last sync (version %d..%d)  [history: %s]", h.idx, verifMShort(r), h.synced, c.m.cur(), strings.Join(c.ops, " "))
	}
	return r
}

func (c *c02Case) put(h *c02Handle, ch chunks.Chunk) {
	if err := h.st.Put(c.ctx, ch, verifMNoAddrs); err != nil {
		if h.kind == "jr" {
			// a read-only opener cannot persist a full memtable; nothing is required of it
			return
		}
		c.rt.Fatalf("handle %d Put(%s, %d bytes): %v  [history: %s]", h.idx, verifMShort(ch.Hash()), len(ch.Data()), err, strings.Join(c.ops, " "))
	}
	if _, ok := h.pending[ch.Hash()]; !ok {
		h.pending[ch.Hash()] = ch.Data()
		h.pendOrder = append(h.pendOrder, ch.Hash())
	}
	h.novel = true
}

func (c *c02Case) stepCommit(h *c02Handle) {
	rt := c.rt
	cached := c.handleRoot(h)
	before := c.m.root()

	// last
	var last hash.Hash
	lastKind := ""
	switch k := rapid.IntRange(0, 9).Draw(rt, "lastKind"); {
	case k < 5:
		last, lastKind = cached, "cached"
	case k < 8:
		last, lastKind = before, "true"
	case k < 9:
		v := rapid.IntRange(0, c.m.cur()).Draw(rt, "lastOlderVersion")
		last, lastKind = c.m.versions[v].root, "older"
	default:
		last, lastKind = hash.Hash{}, "zero"
	}

	// new root
	var cur hash.Hash
	curKind := ""
	dangling := false
	rk := rapid.IntRange(0, 19).Draw(rt, "rootKind")
	switch {
	case rk >= 15 && rk < 17 && c.m.cur() > 0:
		v := rapid.IntRange(1, c.m.cur()).Draw(rt, "rootOlderVersion")
		cur, curKind = c.m.versions[v].root, "oldroot"
	case rk >= 17 && rk < 19 && !last.IsEmpty():
		cur, curKind = last, "same"
	case rk == 19:
		ch := c.gen.draw(rt, "danglingRoot") // never put anywhere
		cur, curKind = ch.Hash(), "dangling"
		dangling = true
	default:
		ch := c.gen.draw(rt, "root")
		c.put(h, ch)
		cur, curKind = ch.Hash(), "fresh"
	}
	if cur == last && curKind != "same" {
		curKind += "(=last)"
	}
	_, inPending := h.pending[cur]
	_, inCommitted := c.m.committed[cur]
	rootPresent := !dangling && (inPending || inCommitted)

	noNovelSame := cur == last && !h.novel // commit(x,x) with nothing to persist: a flush/rebase, not a CAS
	mustSucceed := h.kind != "jr" && h.synced == c.m.cur() && last == before && rootPresent

	manBefore, _ := os.ReadFile(filepath.Join(c.dir, manifestFileName))
	ok, err := h.st.Commit(c.ctx, cur, last)
	manAfter, _ := os.ReadFile(filepath.Join(c.dir, manifestFileName))
	res := "F"
	if err != nil {
		res = "E"
		if errors.Is(err, ErrDanglingRef) {
			res = "Edangling"
		} else if errors.Is(err, errReadOnlyManifest) {
			res = "Ero"
		}
	} else if ok {
		res = "T"
	}
	c.op("c%d(%s->%s:%s,last=%s:%s)=%s", h.idx, verifMShort(last), verifMShort(cur), curKind, lastKind, verifMShort(last), res)
	c.classes["last="+lastKind] = true
	c.classes["root="+strings.TrimSuffix(curKind, "(=last)")] = true
	c.classes["result="+res] = true

	if !ok && mustSucceed && !noNovelSame {
		rt.Fatalf("spurious failure: handle %d is in sync with the persisted state (version %d), last == persisted root %s, new root %s is present, but Commit returned ok=%v err=%v  [history: %s]",
			h.idx, c.m.cur(), verifMShort(before), verifMShort(cur), ok, err, strings.Join(c.ops, " "))
	}
	switch {
	case err != nil:
		// nothing may have changed; chunks of the failed committer are no longer required
		// (a dangling-ref error documents that the memtable is thrown away)
		h.clearPending()
	case ok && noNovelSame:
		// flush of nothing: allowed to report success whatever the persisted root is; it
		// rebases the handle and must not change anything
		if h.kind != "jr" { // a read-only journal opener's view does not advance on rebase
			h.synced = c.m.cur()
		}
		c.classes["noop_same_root_commit"] = true
	case ok && last != before && !c.journal && cur == before && manBefore != nil && bytes.Equal(manBefore, manAfter) && vh.OpenFinding("C02", "C02-same-state-cas-success"):
		// Known finding C02-same-state-cas-success (listed open in known_findings.json): the CAS was lost (last is not the
		// persisted root) but the persisted state already was byte for byte the state this
		// commit wanted to write (same root, same content-addressed table files, hence the
		// same lock hash), and updateManifest takes "returned lock == my new lock" for success.
		// The signature is excluded from judgement and counted; see the pinned case.
		c.excluded++
		c.classes["same_state_cas_success(excluded)"] = true
		for _, a := range h.pendOrder {
			c.m.commitChunk(a, h.pending[a]) // its tables are exactly the persisted ones
		}
		h.clearPending()
		h.novel = false
		h.synced = c.m.cur()
	case ok:
		if last != before {
			rt.Fatalf("commit succeeded although the persisted root was %s, not last=%s (handle %d, new root %s)  [history: %s]",
				verifMShort(before), verifMShort(last), h.idx, verifMShort(cur), strings.Join(c.ops, " "))
		}
		c.m.versions = append(c.m.versions, c02Version{root: cur, by: h.idx})
		for _, a := range h.pendOrder {
			c.m.commitChunk(a, h.pending[a])
		}
		h.clearPending()
		h.novel = false
		h.synced = c.m.cur()
		c.successes++
		if c.reopenAfterCommit {
			c.reopenBetween = true
		}
		if r, _ := h.st.Root(c.ctx); r != cur {
			rt.Fatalf("after a successful commit handle %d reports root %s, want %s", h.idx, verifMShort(r), verifMShort(cur))
		}
	default: // false
		if lastKind == "cached" || last == cached {
			// the handle's own view was the expected root: the CAS failed because someone moved it
			moved := false
			for v := h.synced + 1; v <= c.m.cur(); v++ {
				if c.m.versions[v].by != h.idx {
					moved = true
				}
			}
			if moved && before != last {
				c.failedByOther++
			}
		}
	}
	c.freshCheck(fmt.Sprintf("step %d", len(c.ops)))
}

func c02RunCase(t *testing.T, rt *rapid.T, rec *vh.Recorder) {
	dir, rm := vh.ScratchDir(t, "c02-")
	defer rm()
	c := &c02Case{ctx: context.Background(), t: t, rt: rt, dir: dir, classes: map[string]bool{},
		m:   &c02Model{versions: []c02Version{{by: -1}}, committed: map[hash.Hash][]byte{}},
		gen: &verifMChunkGen{salt: "c02"}}
	defer c.closeAll()

	c.journal = rapid.IntRange(0, 5).Draw(rt, "journal") == 0
	k := rapid.IntRange(2, 4).Draw(rt, "handles")
	cfg := "file"
	if c.journal {
		cfg = "journal"
	} else if rapid.Bool().Draw(rt, "precreateManifest") {
		// the way dolt's own tests and `dolt init` start a table-file store: an empty v5 manifest
		fm, err := getFileManifest(c.ctx, dir)
		if err != nil {
			rt.Fatalf("getFileManifest: %v", err)
		}
		_, err = fm.Update(c.ctx, dherrors.FatalBehaviorError, hash.Hash{}, manifestContents{nbfVers: constants.FormatDoltString, lock: journalAddr}, &Stats{}, nil)
		_ = fm.Close()
		if err != nil {
			rt.Fatalf("pre-create manifest: %v", err)
		}
		cfg = "file+manifest"
	}
	for i := 0; i < k; i++ {
		h := &c02Handle{idx: i, kind: "file"}
		if c.journal {
			h.kind = "jr"
			if i == 0 {
				h.kind = "jw"
			}
		} else {
			h.memSz = rapid.SampledFrom([]uint64{1 << 12, 1 << 16, 1 << 20}).Draw(rt, fmt.Sprintf("memSz%d", i))
			h.maxTables = rapid.SampledFrom([]int{2, 2, 3, 4, 1024}).Draw(rt, fmt.Sprintf("maxTables%d", i))
		}
		c.hs = append(c.hs, h)
		c.open(h)
		if c.journal {
			want := chunks.ExclusiveAccessMode(chunks.ExclusiveAccessMode_ReadOnly)
			if i == 0 {
				want = chunks.ExclusiveAccessMode_Exclusive
			}
			if got := h.st.AccessMode(); got != want {
				rt.Fatalf("journal handle %d access mode %v, want %v", i, got, want)
			}
		}
	}
	var ms []string
	for _, h := range c.hs {
		ms = append(ms, fmt.Sprintf("%s/%d/mt%d", h.kind, h.memSz, h.maxTables))
	}
	c.op("cfg=%s handles=%s |", cfg, strings.Join(ms, ","))

	maxSteps := 30
	if c.journal {
		maxSteps = 16 // opening a journal store costs tens of ms; every commit is followed by a fresh open
	}
	n := rapid.IntRange(8, maxSteps).Draw(rt, "steps")
	for s := 0; s < n; s++ {
		h := c.hs[rapid.IntRange(0, k-1).Draw(rt, "handle")]
		if c.journal && h.kind == "jr" && rapid.IntRange(0, 2).Draw(rt, "preferWriter") > 0 {
			h = c.hs[0] // keep most of the journal history on the writer
		}
		switch a := rapid.IntRange(0, 23).Draw(rt, "action"); {
		case a < 5: // put
			cnt := rapid.IntRange(1, 4).Draw(rt, "nput")
			for i := 0; i < cnt; i++ {
				var ch chunks.Chunk
				if len(c.m.order) > 0 && rapid.IntRange(0, 7).Draw(rt, "reput") == 0 {
					a := c.m.order[rapid.IntRange(0, len(c.m.order)-1).Draw(rt, "reputIdx")]
					ch = chunks.NewChunkWithHash(a, c.m.committed[a])
				} else {
					ch = c.gen.draw(rt, "chunk")
				}
				c.put(h, ch)
			}
			c.op("p%dx%d", h.idx, cnt)
		case a < 14: // commit
			c.stepCommit(h)
		case a < 16: // rebase
			if err := h.st.Rebase(c.ctx); err != nil {
				rt.Fatalf("handle %d Rebase: %v  [history: %s]", h.idx, err, strings.Join(c.ops, " "))
			}
			if h.kind != "jr" {
				h.synced = c.m.cur()
			}
			r := c.handleRoot(h)
			if h.kind != "jr" && r != c.m.root() {
				rt.Fatalf("handle %d Root() after Rebase is %s, persisted root is %s  [history: %s]", h.idx, verifMShort(r), verifMShort(c.m.root()), strings.Join(c.ops, " "))
			}
			c.op("b%d", h.idx)
		case a < 18: // close + reopen this handle
			if c.release(h) {
				c.op("s%d", h.idx)
				c.freshCheck(fmt.Sprintf("the automatic conjoin of handle %d landed before its close", h.idx))
			}
			if err := h.st.Close(); err != nil {
				// Close reporting an error is not part of the property; what the directory
				// holds afterwards is (checked by the reopen below and by every fresh open)
				c.classes["close_error"] = true
				c.op("closeErr%d", h.idx)
			}
			h.st = nil
			c.open(h)
			c.op("r%d", h.idx)
			c.checkView(h.st, fmt.Sprintf("reopened handle %d", h.idx))
			if c.successes > 0 {
				c.reopenAfterCommit = true
			}
		case a < 21 && h.kind == "file":
			c.stepConjoin(h)
		case a < 23 && h.kind == "file":
			c.stepSettle(h)
		default:
			c.op("o")
			c.freshCheck("explicit check")
		}
	}
	// final: every handle closes, then one more fresh open
	c.closeAll()
	c.freshCheck("closing all handles")

	nontrivial := c.failedByOther >= 1 && c.reopenBetween
	var cls []string
	cls = append(cls, "cfg="+cfg, fmt.Sprintf("handles=%d", k))
	if c.failedByOther > 0 {
		cls = append(cls, "failed_cas_by_other")
	}
	if c.reopenBetween {
		cls = append(cls, "reopen_between_commits")
	}
	if c.successes >= 3 {
		cls = append(cls, "successes>=3")
	}
	for kk := range c.classes {
		cls = append(cls, kk)
	}
	rec.Evals(c.freshChecks)
	rec.Excluded(c.excluded)
	rec.Case(strings.Join(c.ops, " "), nontrivial, cls...)
}

// c02PinnedSameStateCAS: A commits x on an empty directory; B, opened before that and never
// rebased, puts the same chunk and commits (x, last=0). Reports whether B was told "true".
func c02PinnedSameStateCAS(t *testing.T) (bool, error) {
	ctx := context.Background()
	dir, rm := vh.ScratchDir(t, "c02pin-")
	defer rm()
	a, err := verifMOpenFile(ctx, dir, 1<<12, 1024)
	if err != nil {
		return false, err
	}
	defer a.Close()
	b, err := verifMOpenFile(ctx, dir, 1<<12, 1024)
	if err != nil {
		return false, err
	}
	defer b.Close()
	x := (&verifMChunkGen{salt: "c02pin"}).make(40, false)
	if err := a.Put(ctx, x, verifMNoAddrs); err != nil {
		return false, err
	}
	if ok, err := a.Commit(ctx, x.Hash(), hash.Hash{}); err != nil || !ok {
		return false, fmt.Errorf("first commit: ok=%v err=%v", ok, err)
	}
	if err := b.Put(ctx, x, verifMNoAddrs); err != nil {
		return false, err
	}
	ok, err := b.Commit(ctx, x.Hash(), hash.Hash{})
	if err != nil {
		return false, nil // refused with an error: the deviation is gone
	}
	return ok, nil
}

func TestVerif_C02(t *testing.T) {
	rec := vh.NewRecorder("C02", "schedule", "exploration", c02Rule,
		"a commit that fails on a handle others have published past is accepted (the statement is 'only if'); success is required only of a handle in sync with the persisted state",
		"commit(x,x) on a handle with nothing to persist is a flush/rebase, not a CAS: it may report success whatever the persisted root is and must change nothing",
		"after a commit that returned an error the chunks that handle had put are no longer required to be readable (the store documents dropping the memtable on a dangling reference)",
		"read-only journal openers are not required to observe later roots on Rebase (their view is fixed at open); a fresh open is",
		"new roots are always addresses of chunks (never the zero hash); chunks carry no references",
		"known finding C02-same-state-cas-success (open in known_findings.json) is excluded from judgement and counted (excluded_known) while it is listed; without the entry it is a violation: a lost CAS is reported as success when the persisted state already is byte for byte the state the commit wanted to write (same root and same content-addressed table files, so the lock hashes coincide and the manifest file is not rewritten); the post-state equals that of a real success")
	defer rec.Write(t)
	logrus.SetLevel(logrus.ErrorLevel) // the journal logs a warning on every read-only close
	t.Run("pinned_same_state_cas", func(t *testing.T) {
		got, err := c02PinnedSameStateCAS(t)
		if err != nil {
			vh.Inconclusive(t, "pinned case could not run: %v", err)
		}
		if got {
			what := "a stale handle's Commit(x, last=0) reports success although the persisted root is already x (persisted state == the state it wanted to write, so the lock hashes coincide)"
			if vh.OpenFinding("C02", "C02-same-state-cas-success") {
				vh.ReportKnown("C02", "C02-same-state-cas-success", what)
			} else {
				vh.NoteViolation(t.Name(), "", `{"case":"empty dir; stores A and B opened; A: Put(x), Commit(x,0)=true; B (not rebased): Put(x), Commit(x,0)","got":"true","want":"false (persisted root is x, not 0)"}`)
				t.Errorf("%s", what)
			}
		}
	})
	vh.Check(t, "schedule", 600, 700, func(rt *rapid.T) { c02RunCase(t, rt, rec) })
}
