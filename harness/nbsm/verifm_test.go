package nbs

// Shared helpers of the nbsm engine (C02, C05): a small chunk generator, store openers and
// directory utilities. Everything is prefixed verifM so it cannot collide with dolt's own
// test helpers or with the other engines overlaid into this package.

import (
	"context"
	"fmt"
	"os"
	"path/filepath"
	"sort"
	"strings"

	"pgregory.net/rapid"

	"github.com/dolthub/dolt/go/store/chunks"
	"github.com/dolthub/dolt/go/store/constants"
	"github.com/dolthub/dolt/go/store/hash"
)

// verifMNoAddrs: chunks of these checks carry no references.
func verifMNoAddrs(chunks.Chunk) chunks.InsertAddrsCb {
	return func(context.Context, hash.HashSet, chunks.PendingRefExists) error { return nil }
}

// verifMChunkGen makes genuine chunks (address = content hash) that are unique per
// (salt, id): the body starts with a tag and is padded to a drawn length with a pattern that
// is either highly compressible or pseudo-random (a fixed LCG over id, no RNG).
type verifMChunkGen struct {
	salt string
	next int
}

func (g *verifMChunkGen) make(size int, incompressible bool) chunks.Chunk {
	id := g.next
	g.next++
	tag := fmt.Sprintf("%s#%d|", g.salt, id)
	if size < len(tag) {
		size = len(tag)
	}
	b := make([]byte, size)
	copy(b, tag)
	x := uint32(id*2654435761 + 12345)
	for i := len(tag); i < size; i++ {
		if incompressible {
			x = x*1664525 + 1013904223
			b[i] = byte(x >> 24)
		} else {
			b[i] = 'a' + byte(id%7)
		}
	}
	return chunks.NewChunk(b)
}

// draw makes one chunk with a drawn size class.
func (g *verifMChunkGen) draw(t *rapid.T, label string) chunks.Chunk {
	var size int
	switch c := rapid.IntRange(0, 9).Draw(t, label+".sizeClass"); {
	case c < 6:
		size = rapid.IntRange(1, 120).Draw(t, label+".size")
	case c < 9:
		size = rapid.IntRange(121, 700).Draw(t, label+".size")
	default:
		size = rapid.IntRange(701, 3000).Draw(t, label+".size")
	}
	return g.make(size, rapid.Bool().Draw(t, label+".incompressible"))
}

func verifMShort(h hash.Hash) string {
	if h.IsEmpty() {
		return "0"
	}
	return h.String()[:6]
}

func verifMOpenFile(ctx context.Context, dir string, memSz uint64, maxTables int) (*NomsBlockStore, error) {
	return newLocalStore(ctx, constants.FormatDoltString, dir, memSz, maxTables, NewUnlimitedMemQuotaProvider(), false)
}

// verifMOpenJournal opens a journaling store. The first opener of a directory becomes the
// exclusive writer; while it is open every other opener is read-only (SkipLockFileTimeout:
// do not wait 100 ms for the lock, the way dolt opens further databases of a busy server).
func verifMOpenJournal(ctx context.Context, dir string) (*NomsBlockStore, error) {
	return NewLocalJournalingStoreWithOptions(ctx, constants.FormatDoltString, dir, NewUnlimitedMemQuotaProvider(), false,
		func(error) {}, JournalingStoreOptions{SkipLockFileTimeout: true})
}

// verifMListDir returns the sorted names of the regular files in dir.
func verifMListDir(dir string) []string {
	ents, err := os.ReadDir(dir)
	if err != nil {
		return nil
	}
	var out []string
	for _, e := range ents {
		if !e.IsDir() {
			out = append(out, e.Name())
		}
	}
	sort.Strings(out)
	return out
}

func verifMDirSummary(dir string) string {
	var b strings.Builder
	for _, n := range verifMListDir(dir) {
		fi, err := os.Stat(filepath.Join(dir, n))
		if err != nil {
			continue
		}
		fmt.Fprintf(&b, " %s(%d)", n, fi.Size())
	}
	return b.String()
}

func verifMSpecNames(specs []tableSpec) string {
	var p []string
	for _, s := range specs {
		p = append(p, verifMShort(s.name))
	}
	return "[" + strings.Join(p, ",") + "]"
}
