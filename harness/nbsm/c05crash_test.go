package nbs

// C05, crash-image part: for one real manifest update U (commit / AddTableFilesToManifest /
// ConjoinTableFiles / GC swap) of a generated history, the directory states a crash can leave
// around U's temp-write → rename are synthesized (temp manifest absent / empty / cut at a byte /
// complete, rename not done; rename done; rename done with a stale temp of an earlier crash)
// and each must open to exactly the old or exactly the new contents.

import (
	"bytes"
	"context"
	"fmt"
	"io"
	"os"
	"path/filepath"
	"strings"
	"testing"
	"time"

	"github.com/sirupsen/logrus"
	"pgregory.net/rapid"

	"github.com/dolthub/dolt/go/store/chunks"
	"github.com/dolthub/dolt/go/store/hash"
	"github.com/dolthub/dolt/go/zzverif/vh"
)

const c05CrashRule = "a table-file store runs 1-5 drawn set-up operations (commit of 1-6 chunks, push-path add of a table file, conjoin) and then one update U in {commit, AddTableFilesToManifest, ConjoinTableFiles, GC swap}; manifest bytes and directory listing are captured before (M0, D0) and after (M1, D1). Crash images = table files of D0 ∪ D1 plus: (a) M0 and no temp; (b) M0 and a temp manifest holding M1 cut at every byte offset 0..len (parse check on all, full open check on offsets 0, 1, len-1, len and 3 drawn ones); (c) M1; (d) M1 plus a stale temp. Oracle per image: parseIfExists equals the parse of M0 (a,b) or M1 (c,d) exactly; every named table file exists; a fresh open shows that version's root and reads every chunk committed in it; a follow-up commit on the image succeeds and survives a reopen; an aged grace prune removes the temp manifest and no named table. Non-trivial: M0 exists (a real replacement), some image has a temp cut strictly inside M1, and M0 and M1 differ in their table list; distinct by the hash of (set-up, U, sizes)."

type c05Snap struct {
	manifest []byte // nil = absent
	files    map[string][]byte
}

func c05TakeSnap(dir string) (c05Snap, error) {
	s := c05Snap{files: map[string][]byte{}}
	for _, n := range verifMListDir(dir) {
		b, err := os.ReadFile(filepath.Join(dir, n))
		if err != nil {
			return s, err
		}
		if n == manifestFileName {
			s.manifest = b
		} else if n != lockFileName {
			s.files[n] = b
		}
	}
	return s, nil
}

type c05Version struct {
	root      hash.Hash
	committed map[hash.Hash][]byte
}

func c05CopyCommitted(m map[hash.Hash][]byte) map[hash.Hash][]byte {
	out := make(map[hash.Hash][]byte, len(m))
	for k, v := range m {
		out[k] = v
	}
	return out
}

func c05CrashCase(t *testing.T, rt *rapid.T, rec *vh.Recorder) {
	ctx := context.Background()
	dir, rm := vh.ScratchDir(t, "c05x-")
	defer rm()
	gen := &verifMChunkGen{salt: "c05x"}
	st, err := verifMOpenFile(ctx, dir, 1<<12, 1024)
	if err != nil {
		rt.Fatalf("open: %v", err)
	}
	defer func() {
		if st != nil {
			_ = st.Close()
		}
	}()
	cur := c05Version{committed: map[hash.Hash][]byte{}}
	var ops []string
	fail := func(format string, a ...any) {
		rt.Fatalf("%s\n  [history: %s]\n  dir:%s", fmt.Sprintf(format, a...), strings.Join(ops, " "), verifMDirSummary(dir))
	}
	doCommit := func() {
		n := rapid.IntRange(1, 6).Draw(rt, "nchunks")
		var root chunks.Chunk
		for i := 0; i < n; i++ {
			ch := gen.draw(rt, "chunk")
			if err := st.Put(ctx, ch, verifMNoAddrs); err != nil {
				fail("Put: %v", err)
			}
			cur.committed[ch.Hash()] = ch.Data()
			root = ch
		}
		last, _ := st.Root(ctx)
		ok, err := st.Commit(ctx, root.Hash(), last)
		if err != nil || !ok {
			fail("set-up commit: ok=%v err=%v", ok, err)
		}
		cur.root = root.Hash()
		ops = append(ops, fmt.Sprintf("commit(%d)", n))
	}
	doAdd := func() {
		n := rapid.IntRange(1, 4).Draw(rt, "tfChunks")
		mt := newMemTable(1 << 20)
		for i := 0; i < n; i++ {
			ch := gen.draw(rt, "tfChunk")
			if mt.addChunk(ch.Hash(), ch.Data()) == chunkAdded {
				cur.committed[ch.Hash()] = ch.Data()
			}
		}
		name, data, _, count, _, err := mt.write(nil, nil, &Stats{})
		if err != nil {
			fail("build table: %v", err)
		}
		closer, err := st.WriteTableFile(ctx, name.String(), 0, int(count), nil, func() (io.ReadCloser, uint64, error) {
			return io.NopCloser(bytes.NewReader(data)), uint64(len(data)), nil
		})
		if err != nil {
			fail("WriteTableFile: %v", err)
		}
		err = st.AddTableFilesToManifest(ctx, map[string]int{name.String(): int(count)}, verifMNoAddrs)
		_ = closer.Close()
		if err != nil {
			fail("AddTableFilesToManifest: %v", err)
		}
		ops = append(ops, fmt.Sprintf("add(%d)", n))
	}
	doConjoin := func() bool {
		specs := st.upstream.specs
		if len(specs) < 2 {
			return false
		}
		n := rapid.IntRange(2, len(specs)).Draw(rt, "conjoinN")
		var ids []hash.Hash
		for _, s := range specs[:n] {
			ids = append(ids, s.name)
		}
		if _, err := st.ConjoinTableFiles(ctx, ids); err != nil {
			fail("ConjoinTableFiles: %v", err)
		}
		ops = append(ops, fmt.Sprintf("conjoin(%d/%d)", n, len(specs)))
		return true
	}
	doGC := func() bool {
		if len(cur.committed) == 0 {
			return false
		}
		if err := st.BeginGC(ctx, nil, chunks.GCMode_Full); err != nil {
			fail("BeginGC: %v", err)
		}
		defer st.EndGC(chunks.GCMode_Full)
		cfg := chunks.NewGCConfig(chunks.GCMode_Full, chunks.NoArchive, chunks.IncrementalGCTablesDisabled)
		sweeper, err := st.MarkAndSweepChunks(ctx, func(chunks.Chunk, func(hash.Hash) error) error { return nil },
			func(_ context.Context, hs hash.HashSet) (hash.HashSet, error) { return hs, nil }, nil, cfg, false)
		if err != nil {
			return false // nothing to collect
		}
		keep := hash.HashSet{}
		for a := range cur.committed {
			keep.Insert(a)
		}
		if err := sweeper.SaveHashes(ctx, keep); err != nil {
			fail("SaveHashes: %v", err)
		}
		fin, err := sweeper.Finalize(ctx)
		if err != nil {
			fail("Finalize: %v", err)
		}
		defer fin.Close()
		_ = sweeper.Close(ctx)
		if err := fin.SwapChunksInStore(ctx); err != nil {
			fail("SwapChunksInStore: %v", err)
		}
		ops = append(ops, "gcswap")
		return true
	}

	nsetup := rapid.IntRange(0, 5).Draw(rt, "setup")
	for i := 0; i < nsetup; i++ {
		switch k := rapid.IntRange(0, 9).Draw(rt, "setupOp"); {
		case k < 6:
			doCommit()
		case k < 9:
			doAdd()
		default:
			if !doConjoin() {
				doCommit()
			}
		}
	}
	ops = append(ops, "|U:")
	old := c05Version{root: cur.root, committed: c05CopyCommitted(cur.committed)}
	s0, err := c05TakeSnap(dir)
	if err != nil {
		fail("snapshot: %v", err)
	}
	ukind := rapid.SampledFrom([]string{"commit", "commit", "add", "conjoin", "gc"}).Draw(rt, "U")
	switch ukind {
	case "commit":
		doCommit()
	case "add":
		doAdd()
	case "conjoin":
		if !doConjoin() {
			ukind = "commit"
			doCommit()
		}
	case "gc":
		if !doGC() {
			ukind = "commit"
			doCommit()
		}
	}
	s1, err := c05TakeSnap(dir)
	if err != nil {
		fail("snapshot: %v", err)
	}
	_ = st.Close()
	st = nil
	if s1.manifest == nil || bytes.Equal(s0.manifest, s1.manifest) {
		fail("update %s did not change the manifest", ukind)
	}
	newV := cur
	var m0, m1 manifestContents
	if s0.manifest != nil {
		if m0, err = parseManifest(bytes.NewReader(s0.manifest)); err != nil {
			fail("parse M0: %v", err)
		}
	}
	if m1, err = parseManifest(bytes.NewReader(s1.manifest)); err != nil {
		fail("parse M1: %v", err)
	}

	images := 0
	// mkImage materializes one crash image and returns its directory.
	mkImage := func(manifest []byte, temps map[string][]byte) string {
		d, err := os.MkdirTemp(dir, "img-")
		if err != nil {
			vh.Inconclusive(t, "mkdir: %v", err)
		}
		w := func(n string, b []byte) {
			if err := os.WriteFile(filepath.Join(d, n), b, 0o644); err != nil {
				vh.Inconclusive(t, "write image: %v", err)
			}
		}
		for n, b := range s0.files {
			w(n, b)
		}
		for n, b := range s1.files {
			w(n, b)
		}
		if manifest != nil {
			w(manifestFileName, manifest)
		}
		for n, b := range temps {
			w(n, b)
		}
		images++
		return d
	}
	parseCheck := func(d string, wantExists bool, want manifestContents, what string) {
		exists, got, err := parseIfExists(ctx, d, nil)
		if err != nil {
			fail("%s: manifest does not parse: %v", what, err)
		}
		if exists != wantExists || (exists && !c05Same(got, want)) {
			fail("%s: manifest reads as %s, want %s", what, c05Fmt(exists, got), c05Fmt(wantExists, want))
		}
		for _, s := range got.specs {
			found := false
			for _, n := range []string{s.name.String(), s.name.String() + ArchiveFileSuffix} {
				if _, err := os.Stat(filepath.Join(d, n)); err == nil {
					found = true
				}
			}
			if exists && !found {
				fail("%s: manifest names %s, which is not in the image", what, s.name.String())
			}
		}
	}
	viewCheck := func(d string, v c05Version, what string) {
		fs, err := verifMOpenFile(ctx, d, 1<<16, 1024)
		if err != nil {
			fail("%s: open fails: %v  image:%s", what, err, verifMDirSummary(d))
		}
		defer fs.Close()
		r, err := fs.Root(ctx)
		if err != nil || r != v.root {
			fail("%s: root %s (err %v), want %s", what, verifMShort(r), err, verifMShort(v.root))
		}
		for a, data := range v.committed {
			got, err := fs.Get(ctx, a)
			if err != nil || !bytes.Equal(got.Data(), data) {
				fail("%s: chunk %s unreadable (err %v, %d bytes, want %d)", what, verifMShort(a), err, len(got.Data()), len(data))
			}
		}
	}
	fullCheck := func(d string, wantExists bool, want manifestContents, v c05Version, what string, hasTemp bool) {
		parseCheck(d, wantExists, want, what)
		viewCheck(d, v, what)
		// the image must accept the next update …
		fs, err := verifMOpenFile(ctx, d, 1<<12, 1024)
		if err != nil {
			fail("%s: reopen fails: %v", what, err)
		}
		next := gen.make(64, false)
		if err := fs.Put(ctx, next, verifMNoAddrs); err != nil {
			fail("%s: Put on the recovered image: %v", what, err)
		}
		ok, err := fs.Commit(ctx, next.Hash(), v.root)
		_ = fs.Close()
		if err != nil || !ok {
			fail("%s: follow-up commit on the recovered image: ok=%v err=%v", what, ok, err)
		}
		v2 := c05Version{root: next.Hash(), committed: c05CopyCommitted(v.committed)}
		v2.committed[next.Hash()] = next.Data()
		viewCheck(d, v2, what+" + follow-up commit")
		// … and an aged grace prune removes the temp manifest but nothing the manifest names
		now := time.Now()
		for i, n := range verifMListDir(d) {
			ts := now.Add(-2*c05Grace - time.Duration(i)*time.Second)
			_ = os.Chtimes(filepath.Join(d, n), ts, ts)
		}
		ps, err := verifMOpenFile(ctx, d, 1<<12, 1024)
		if err != nil {
			fail("%s: open for prune: %v", what, err)
		}
		_, perr := ps.PruneUnreferencedWithGrace(ctx, c05Grace)
		_ = ps.Close()
		if perr != nil {
			fail("%s: grace prune: %v", what, perr)
		}
		for _, n := range verifMListDir(d) {
			if hasTemp && strings.HasPrefix(n, tempManifestPrefix) {
				fail("%s: the aged grace prune left the temp manifest %s behind", what, n)
			}
		}
		exists, after, err := parseIfExists(ctx, d, nil)
		if err != nil || !exists {
			fail("%s: manifest unreadable after prune: %v", what, err)
		}
		parseCheck(d, true, after, what+" after prune")
		viewCheck(d, v2, what+" after prune")
		_ = os.RemoveAll(d)
	}

	tmpName := tempManifestPrefix + "crashed1"
	// (a) nothing of the update reached the directory except the new table files
	fullCheck(mkImage(s0.manifest, nil), s0.manifest != nil, m0, old, "image(a): old manifest, no temp", false)
	// (b) temp manifest cut at every byte; rename not done
	full := map[int]bool{0: true, 1: true, len(s1.manifest) - 1: true, len(s1.manifest): true}
	for i := 0; i < 3; i++ {
		full[rapid.IntRange(0, len(s1.manifest)).Draw(rt, "cut")] = true
	}
	inside := false
	cheapDir := ""
	for cut := 0; cut <= len(s1.manifest); cut++ {
		if full[cut] {
			if cut > 0 && cut < len(s1.manifest) {
				inside = true
			}
			fullCheck(mkImage(s0.manifest, map[string][]byte{tmpName: s1.manifest[:cut]}), s0.manifest != nil, m0, old,
				fmt.Sprintf("image(b): old manifest + temp cut at %d/%d", cut, len(s1.manifest)), true)
		} else {
			// cheap variant: only the temp file differs; rewrite it in one shared image
			if cheapDir == "" {
				cheapDir = mkImage(s0.manifest, nil)
			}
			if err := os.WriteFile(filepath.Join(cheapDir, tmpName), s1.manifest[:cut], 0o644); err != nil {
				vh.Inconclusive(t, "write image: %v", err)
			}
			images++
			parseCheck(cheapDir, s0.manifest != nil, m0, fmt.Sprintf("image(b): old manifest + temp cut at %d/%d", cut, len(s1.manifest)))
		}
	}
	if cheapDir != "" {
		_ = os.RemoveAll(cheapDir)
	}
	// (c) rename done
	fullCheck(mkImage(s1.manifest, nil), true, m1, newV, "image(c): new manifest", false)
	// (d) rename done, stale temp of an earlier crashed update still around
	stale := s1.manifest[:len(s1.manifest)/2]
	if s0.manifest != nil {
		stale = s0.manifest[:rapid.IntRange(0, len(s0.manifest)).Draw(rt, "staleCut")]
	}
	fullCheck(mkImage(s1.manifest, map[string][]byte{tempManifestPrefix + "stale0": stale}), true, m1, newV, "image(d): new manifest + stale temp", true)

	tablesDiffer := len(m0.specs) != len(m1.specs)
	for i := 0; !tablesDiffer && i < len(m0.specs); i++ {
		tablesDiffer = m0.specs[i] != m1.specs[i]
	}
	nontrivial := s0.manifest != nil && inside && tablesDiffer
	cls := []string{"U=" + ukind, fmt.Sprintf("setup=%d", nsetup)}
	if s0.manifest == nil {
		cls = append(cls, "first_manifest")
	}
	if len(m1.specs) < len(m0.specs) {
		cls = append(cls, "tables_shrink")
	}
	rec.Evals(images)
	rec.Case(fmt.Sprintf("%s %s m0=%d m1=%d bytes specs %d->%d", strings.Join(ops, " "), ukind, len(s0.manifest), len(s1.manifest), len(m0.specs), len(m1.specs)), nontrivial, cls...)
}

func TestVerif_C05_Crash(t *testing.T) {
	rec := vh.NewRecorder("C05", "crash_images", "exploration", c05CrashRule,
		"crash images are synthesized from the documented update protocol (temp file in the directory, rename over 'manifest'); states that need the temp file's fsync to be missing (a renamed but empty manifest) are not generated — that is the trace invariant's job",
		"table files of both the old and the new version are present in every image (new files are written before the manifest update, old ones are deleted only after it)")
	defer rec.Write(t)
	logrus.SetLevel(logrus.ErrorLevel)
	vh.Check(t, "crash_images", 100, 150, func(rt *rapid.T) { c05CrashCase(t, rt, rec) })
}
