package nbs

// C05 — the manifest is replaced atomically and never names a missing table file.
//
// Schedule part: 2-4 separately opened table-file stores ("processes") on one directory act as
// writers (memtable path: Put…/Commit; push path: WriteTableFile | AddTableFilesToManifest;
// raw path: persist a table | manifest.Update with the repository's writeHook), conjoiner
// (ConjoinTableFiles), garbage collector (MarkAndSweepChunks → SwapChunksInStore [→
// PruneTableFiles]) and grace pruner (PruneUnreferencedWithGrace with file ages set by
// os.Chtimes). Other actors' steps are run at the repository's own hook points
// (_testPruneAfterSnapshotHook, _testPruneUnderLockHook, Update's writeHook, ParseIfExists'
// readHook). After every step and at every hook point the manifest on disk must be one complete
// published version and every table file it names must exist.

import (
	"bytes"
	"context"
	"errors"
	"fmt"
	"io"
	"os"
	"path/filepath"
	"sort"
	"strings"
	"testing"
	"time"

	"github.com/sirupsen/logrus"
	"pgregory.net/rapid"

	dherrors "github.com/dolthub/dolt/go/libraries/utils/errors"
	"github.com/dolthub/dolt/go/store/chunks"
	"github.com/dolthub/dolt/go/store/constants"
	"github.com/dolthub/dolt/go/store/hash"
	"github.com/dolthub/dolt/go/zzverif/vh"
)

const c05Rule = "2-4 separately opened table-file stores on one directory (memtable 4KiB/64KiB, manifest pre-created or not) run 10-36 drawn steps: put; commit(fresh root,last=Root()); push-path writeTableFile | addTableFilesToManifest; raw-path persistTable | fileManifest.Update(writeHook); ConjoinTableFiles of 2..n upstream tables; GC table swap (BeginGC, MarkAndSweepChunks keeping every committed chunk, SwapChunksInStore, EndGC, optionally PruneTableFiles); PruneUnreferencedWithGrace(1h) after os.Chtimes ageing of the directory (all old / one file young / untouched); rebase; reopen. At the prune's after-snapshot and under-lock hooks, at Update's writeHook and ParseIfExists' readHook another store's step is run (lock-free steps directly; steps that need the LOCK while it is held either synchronously, expecting the lock timeout, or asynchronously — the hook returns once the writer is queued on the LOCK, and under the prune lock the writer is preferably one whose unpublished table is a prune candidate — joined after release). Oracle after every step and at every hook point: parseIfExists succeeds and equals the expected complete version (old inside an update, old-or-new tuple after a step; lock == hash(root,specs)); every spec names an existing table file or .darc; the root is the model's root; a fresh open reads every committed chunk; steps that reported failure left the manifest untouched. Non-trivial: a grace prune unlinked >=1 file while some writer had a persisted-but-unpublished table file; distinct by the hash of (configuration, step sequence with outcomes)."

const c05Grace = time.Hour

type c05Tab struct {
	name   hash.Hash
	count  uint32
	data   map[hash.Hash][]byte
	order  []hash.Hash
	closer io.Closer   // pendingHandle of WriteTableFile
	src    chunkSource // open source of the raw path
}

type c05Raw struct {
	base   manifestContents
	exists bool
	tab    *c05Tab
	root   hash.Hash // new root, or the base root when unchanged
}

type c05Handle struct {
	idx       int
	st        *NomsBlockStore
	memSz     uint64
	pending   map[hash.Hash][]byte
	pendOrder []hash.Hash
	files     []*c05Tab
	raw       *c05Raw
}

func (h *c05Handle) clearPending() { h.pending, h.pendOrder = map[hash.Hash][]byte{}, nil }

type c05Async struct {
	done chan struct{}
	fin  func()
}

type c05Case struct {
	ctx      context.Context
	t        *testing.T
	rt       *rapid.T
	dir      string
	lockPath string
	hs       []*c05Handle
	gen      *verifMChunkGen
	ops      []string
	cls      map[string]bool
	stats    Stats

	root      hash.Hash
	committed map[hash.Hash][]byte
	order     []hash.Hash
	exists    bool // a manifest exists
	cur       manifestContents
	versions  int
	initial   bool // cur is the hand-made initial manifest (arbitrary lock)

	mayPublish bool // the running step is allowed to publish a new version
	outerMay   bool // ... or the enclosing raw update did, and is folded in after an asynchronous step is joined
	async      *c05Async

	pruneDeleted         int
	pruneWithUnpublished int // prunes that unlinked >=1 file while a writer had an unpublished table
	victims              int // unpublished tables of writers removed by a prune
	refused              int
	hookSteps            int
	checks               int
}

func (c *c05Case) op(format string, a ...any) { c.ops = append(c.ops, fmt.Sprintf(format, a...)) }
func (c *c05Case) hist() string               { return strings.Join(c.ops, " ") }

func (c *c05Case) fatalf(format string, a ...any) {
	c.rt.Fatalf("%s\n  [history: %s]\n  manifest: %s\n  dir:%s", fmt.Sprintf(format, a...), c.hist(), c05Fmt(c.exists, c.cur), verifMDirSummary(c.dir))
}

func c05Fmt(exists bool, mc manifestContents) string {
	if !exists {
		return "(none)"
	}
	return fmt.Sprintf("lock=%s root=%s gcGen=%s specs=%s", verifMShort(mc.lock), verifMShort(mc.root), verifMShort(mc.gcGen), verifMSpecNames(mc.specs))
}

func c05Same(a, b manifestContents) bool {
	if a.nbfVers != b.nbfVers || a.lock != b.lock || a.root != b.root || a.gcGen != b.gcGen || len(a.specs) != len(b.specs) {
		return false
	}
	for i := range a.specs {
		if a.specs[i] != b.specs[i] {
			return false
		}
	}
	return true
}

func (c *c05Case) fileExists(name hash.Hash) bool {
	for _, n := range []string{name.String(), name.String() + ArchiveFileSuffix} {
		if _, err := os.Stat(filepath.Join(c.dir, n)); err == nil {
			return true
		}
	}
	return false
}

// check is the oracle on the directory. frozen: the manifest must still be exactly c.cur
// (inside an update, at a hook, or after a step that reported failure).
func (c *c05Case) check(point string, frozen bool) {
	c.checks++
	exists, mc, err := parseIfExists(c.ctx, c.dir, nil)
	if err != nil {
		c.fatalf("%s: the manifest does not parse: %v", point, err)
	}
	same := exists == c.exists && (!exists || c05Same(mc, c.cur))
	if !same {
		if frozen || !(c.mayPublish || c.outerMay) {
			c.fatalf("%s: the manifest changed where no update may have been published: now %s", point, c05Fmt(exists, mc))
		}
		if !exists {
			c.fatalf("%s: the manifest disappeared", point)
		}
		c.exists, c.cur, c.initial = true, mc, false
		c.versions++
	}
	if !c.exists {
		return
	}
	if !c.initial {
		if want := generateLockHash(c.cur.root, c.cur.specs, nil, nil); want != c.cur.lock {
			c.fatalf("%s: manifest is not one complete version: lock %s is not the hash of its root and specs (%s)", point, verifMShort(c.cur.lock), verifMShort(want))
		}
	}
	if c.cur.root != c.root {
		c.fatalf("%s: manifest root is %s, the last acknowledged root is %s", point, verifMShort(c.cur.root), verifMShort(c.root))
	}
	for _, s := range c.cur.specs {
		if !c.fileExists(s.name) {
			c.fatalf("%s: the manifest names table file %s, which is not in the directory", point, s.name.String())
		}
	}
}

func (c *c05Case) fresh(point string) {
	st, err := verifMOpenFile(c.ctx, c.dir, 1<<16, 1024)
	if err != nil {
		c.fatalf("%s: a fresh open fails: %v", point, err)
	}
	defer st.Close()
	r, err := st.Root(c.ctx)
	if err != nil || r != c.root {
		c.fatalf("%s: fresh open sees root %s (err %v), want %s", point, verifMShort(r), err, verifMShort(c.root))
	}
	for _, a := range c.order {
		got, err := st.Get(c.ctx, a)
		if err != nil || !bytes.Equal(got.Data(), c.committed[a]) {
			c.fatalf("%s: committed chunk %s is unreadable from a fresh open (err %v, %d bytes, want %d)", point, verifMShort(a), err, len(got.Data()), len(c.committed[a]))
		}
	}
}

func (c *c05Case) commitChunks(order []hash.Hash, data map[hash.Hash][]byte) {
	for _, a := range order {
		if _, ok := c.committed[a]; !ok {
			c.committed[a] = data[a]
			c.order = append(c.order, a)
		}
	}
}

func (c *c05Case) open(h *c05Handle) {
	st, err := verifMOpenFile(c.ctx, c.dir, h.memSz, 1024)
	if err != nil {
		c.fatalf("open handle %d: %v", h.idx, err)
	}
	h.st = st
	h.clearPending()
}

func (c *c05Case) dropUnpublished(h *c05Handle) {
	for _, f := range h.files {
		_ = f.closer.Close()
	}
	h.files = nil
	if h.raw != nil {
		_ = h.raw.tab.src.close()
		h.raw = nil
	}
}

func (c *c05Case) reopen(h *c05Handle) {
	c.dropUnpublished(h)
	_ = h.st.Close()
	c.open(h)
}

func (c *c05Case) closeAll() {
	for _, h := range c.hs {
		if h.st != nil {
			c.dropUnpublished(h)
			_ = h.st.Close()
			h.st = nil
		}
	}
}

// unpublished lists the table files on disk that some open handle has persisted and not yet
// published: novel tables of the memtable path, written push-path files, raw-path tables.
func (c *c05Case) unpublished() map[hash.Hash]*c05Handle {
	out := map[hash.Hash]*c05Handle{}
	for _, h := range c.hs {
		for name := range h.st.tables.novel {
			out[name] = h
		}
		for _, f := range h.files {
			out[f.name] = h
		}
		if h.raw != nil {
			out[h.raw.tab.name] = h
		}
	}
	for name := range out {
		if !c.fileExists(name) {
			delete(out, name)
		}
	}
	return out
}

func (c *c05Case) other(label string, not *c05Handle) *c05Handle {
	var cand []*c05Handle
	for _, h := range c.hs {
		if h != not {
			cand = append(cand, h)
		}
	}
	return cand[rapid.IntRange(0, len(cand)-1).Draw(c.rt, label)]
}

// ---- steps ------------------------------------------------------------------------------

func (c *c05Case) put(h *c05Handle, n int) {
	for i := 0; i < n; i++ {
		ch := c.gen.draw(c.rt, "chunk")
		if err := h.st.Put(c.ctx, ch, verifMNoAddrs); err != nil {
			c.fatalf("handle %d Put: %v", h.idx, err)
		}
		if _, ok := h.pending[ch.Hash()]; !ok {
			h.pending[ch.Hash()] = ch.Data()
			h.pendOrder = append(h.pendOrder, ch.Hash())
		}
	}
}

type c05CommitRes struct {
	h    *c05Handle
	root hash.Hash
	last hash.Hash
	ok   bool
	err  error
}

func (c *c05Case) prepCommit(h *c05Handle) c05CommitRes {
	ch := c.gen.draw(c.rt, "root")
	if err := h.st.Put(c.ctx, ch, verifMNoAddrs); err != nil {
		c.fatalf("handle %d Put(root): %v", h.idx, err)
	}
	h.pending[ch.Hash()] = ch.Data()
	h.pendOrder = append(h.pendOrder, ch.Hash())
	last, err := h.st.Root(c.ctx)
	if err != nil {
		c.fatalf("handle %d Root: %v", h.idx, err)
	}
	return c05CommitRes{h: h, root: ch.Hash(), last: last}
}

func c05ExecCommit(ctx context.Context, r c05CommitRes) c05CommitRes {
	r.ok, r.err = r.h.st.Commit(ctx, r.root, r.last)
	return r
}

func c05ErrClass(err error) string {
	switch {
	case err == nil:
		return ""
	case errors.Is(err, ErrManifestSpecMissingTableFile):
		return "Emissing"
	case strings.Contains(err.Error(), "timed out"):
		return "Etimeout"
	case errors.Is(err, ErrTableFileNotFound) || errors.Is(err, os.ErrNotExist):
		return "Enotfound"
	case errors.Is(err, chunks.ErrGCGenerationExpired):
		return "Egcgen"
	default:
		return "E"
	}
}

// applyCommit folds a commit's outcome into the model. The directory check that follows it
// decides whether the manifest is allowed to have changed.
func (c *c05Case) applyCommit(r c05CommitRes, where string) {
	h := r.h
	res := "F"
	switch {
	case r.err != nil:
		res = c05ErrClass(r.err)
		h.clearPending()
		if res == "Emissing" {
			c.refused++
		}
	case r.ok:
		res = "T"
		if r.last != c.root {
			c.fatalf("commit by handle %d succeeded with last=%s although the persisted root was %s", h.idx, verifMShort(r.last), verifMShort(c.root))
		}
		c.root = r.root
		c.commitChunks(h.pendOrder, h.pending)
		h.clearPending()
	}
	c.op("%sc%d(%s->%s)=%s", where, h.idx, verifMShort(r.last), verifMShort(r.root), res)
	c.cls["commit="+res] = true
	c.mayPublish = r.err == nil && r.ok
	c.check(fmt.Sprintf("after commit by handle %d (%s)", h.idx, res), false)
	c.mayPublish = false
	if r.err != nil && res != "Etimeout" {
		// the store holds a table it can never publish (or lost its memtable): a real process
		// would fail the operation and start over
		c.reopen(h)
		c.op("%sr%d", where, h.idx)
	}
}

func (c *c05Case) writeTableFile(h *c05Handle, where string) {
	n := rapid.IntRange(1, 4).Draw(c.rt, "tfChunks")
	mt := newMemTable(1 << 20)
	tab := &c05Tab{data: map[hash.Hash][]byte{}}
	for i := 0; i < n; i++ {
		ch := c.gen.draw(c.rt, "tfChunk")
		if mt.addChunk(ch.Hash(), ch.Data()) == chunkAdded {
			tab.data[ch.Hash()] = ch.Data()
			tab.order = append(tab.order, ch.Hash())
		}
	}
	name, data, _, count, _, err := mt.write(nil, nil, &Stats{})
	if err != nil {
		c.fatalf("build table: %v", err)
	}
	tab.name, tab.count = name, count
	closer, err := h.st.WriteTableFile(c.ctx, name.String(), 0, int(count), nil, func() (io.ReadCloser, uint64, error) {
		return io.NopCloser(bytes.NewReader(data)), uint64(len(data)), nil
	})
	if err != nil {
		c.fatalf("handle %d WriteTableFile: %v", h.idx, err)
	}
	tab.closer = closer
	h.files = append(h.files, tab)
	c.op("%sw%d(%s)", where, h.idx, verifMShort(name))
}

type c05AddRes struct {
	h     *c05Handle
	files []*c05Tab
	err   error
}

func (c *c05Case) prepAdd(h *c05Handle) c05AddRes {
	r := c05AddRes{h: h, files: h.files}
	h.files = nil
	// A store that has not seen the current GC generation retries inside
	// AddTableFilesToManifest without ever rebasing (observed: it spins until it runs out of
	// file descriptors). Pushers open the destination right before they add, so bring the
	// handle up to date first: Rebase, and when that does not help (a GC that rewrote the same
	// table set leaves the lock hash unchanged, so Rebase short-circuits) reopen the store.
	if c.exists && h.st.upstream.gcGen != c.cur.gcGen {
		if err := h.st.Rebase(c.ctx); err != nil {
			c.fatalf("handle %d Rebase: %v", h.idx, err)
		}
		c.cls["rebase_before_add(gcgen)"] = true
		if h.st.upstream.gcGen != c.cur.gcGen {
			c.reopen(h)
			c.cls["reopen_before_add(gcgen_same_lock)"] = true
		}
	}
	return r
}

func c05ExecAdd(ctx context.Context, r c05AddRes) c05AddRes {
	m := map[string]int{}
	for _, f := range r.files {
		m[f.name.String()] = int(f.count)
	}
	r.err = r.h.st.AddTableFilesToManifest(ctx, m, verifMNoAddrs)
	return r
}

func (c *c05Case) applyAdd(r c05AddRes, where string) {
	res := "T"
	if r.err != nil {
		res = c05ErrClass(r.err)
		if res == "Emissing" || res == "Enotfound" {
			c.refused++
		}
	} else {
		for _, f := range r.files {
			c.commitChunks(f.order, f.data)
		}
	}
	var names []string
	for _, f := range r.files {
		names = append(names, verifMShort(f.name))
		_ = f.closer.Close()
	}
	c.op("%sa%d(%s)=%s", where, r.h.idx, strings.Join(names, ","), res)
	c.cls["add="+res] = true
	c.mayPublish = r.err == nil
	c.check(fmt.Sprintf("after AddTableFilesToManifest by handle %d (%s)", r.h.idx, res), false)
	c.mayPublish = false
}

func (c *c05Case) rawBegin(h *c05Handle, where string, withReadHook bool) {
	var readHook func() error
	if withReadHook {
		readHook = func() error {
			c.nested("readHook", h, false, nil)
			return nil
		}
	}
	exists, base, err := h.st.manifest.ParseIfExists(c.ctx, &c.stats, readHook)
	if err != nil {
		c.fatalf("handle %d ParseIfExists: %v", h.idx, err)
	}
	if exists != c.exists || (exists && !c05Same(base, c.cur)) {
		c.fatalf("handle %d ParseIfExists returned %s, which is not the published version", h.idx, c05Fmt(exists, base))
	}
	n := rapid.IntRange(1, 3).Draw(c.rt, "rawChunks")
	mt := newMemTable(1 << 20)
	tab := &c05Tab{data: map[hash.Hash][]byte{}}
	for i := 0; i < n; i++ {
		ch := c.gen.draw(c.rt, "rawChunk")
		if mt.addChunk(ch.Hash(), ch.Data()) == chunkAdded {
			tab.data[ch.Hash()] = ch.Data()
			tab.order = append(tab.order, ch.Hash())
		}
	}
	src, _, err := h.st.persister.Persist(c.ctx, dherrors.FatalBehaviorError, mt, nil, nil, &c.stats)
	if err != nil {
		c.fatalf("handle %d persister.Persist: %v", h.idx, err)
	}
	tab.name, tab.count, tab.src = src.hash(), src.count(), src
	raw := &c05Raw{base: base, exists: exists, tab: tab, root: base.root}
	if rapid.Bool().Draw(c.rt, "rawMovesRoot") {
		raw.root = tab.order[0]
	}
	h.raw = raw
	c.op("%sRb%d(%s)", where, h.idx, verifMShort(tab.name))
}

func c05RawNext(raw *c05Raw) manifestContents {
	specs := append(append([]tableSpec{}, raw.base.specs...), tableSpec{name: raw.tab.name, chunkCount: raw.tab.count})
	return manifestContents{nbfVers: constants.FormatDoltString, root: raw.root, gcGen: raw.base.gcGen, specs: specs,
		lock: generateLockHash(raw.root, specs, nil, nil)}
}

func (c *c05Case) rawFinish(h *c05Handle, where string, withWriteHook bool) {
	raw := h.raw
	h.raw = nil
	next := c05RawNext(raw)
	var writeHook func() error
	hookRan := false
	if withWriteHook {
		writeHook = func() error {
			hookRan = true
			// the new version is in a temp file, the LOCK is held, nothing is published yet
			tmpSeen := false
			for _, n := range verifMListDir(c.dir) {
				if strings.HasPrefix(n, tempManifestPrefix) {
					tmpSeen = true
				}
			}
			if !tmpSeen {
				c.fatalf("writeHook of handle %d: no temp manifest in the directory", h.idx)
			}
			c.check(fmt.Sprintf("inside Update of handle %d (temp written, before rename)", h.idx), true)
			c.nested("writeHook", h, true, nil)
			return nil
		}
	}
	got, err := h.st.manifest.Update(c.ctx, dherrors.FatalBehaviorError, raw.base.lock, next, &c.stats, writeHook)
	c.applyRaw(h, raw, next, got, err, hookRan, where)
}

// applyRaw folds the outcome of a raw-path manifest.Update into the model.
func (c *c05Case) applyRaw(h *c05Handle, raw *c05Raw, next, got manifestContents, err error, hookRan bool, where string) {
	res := ""
	published := false
	switch {
	case err != nil:
		res = c05ErrClass(err)
		if res == "Emissing" {
			c.refused++
		}
	case got.lock == next.lock:
		res = "T"
		published = true
		if raw.base.root != c.root {
			c.fatalf("raw update by handle %d succeeded on a stale base (base root %s, persisted %s)", h.idx, verifMShort(raw.base.root), verifMShort(c.root))
		}
		c.root = raw.root
		c.commitChunks(raw.tab.order, raw.tab.data)
	default:
		res = "stale"
	}
	c.op("%sRf%d(%s,hook=%v)=%s", where, h.idx, verifMShort(raw.tab.name), hookRan, res)
	c.cls["raw="+res] = true
	prevOuter := c.outerMay // an enclosing raw update that published keeps counting while a joined step is folded in
	c.outerMay = prevOuter || published
	c.joinAsync()
	c.outerMay = prevOuter
	c.mayPublish = published
	c.check(fmt.Sprintf("after raw Update by handle %d (%s)", h.idx, res), false)
	c.mayPublish = false
	_ = raw.tab.src.close()
}

func (c *c05Case) conjoin(h *c05Handle) {
	if rapid.Bool().Draw(c.rt, "rebaseBeforeConjoin") {
		_ = h.st.Rebase(c.ctx)
	}
	specs := h.st.upstream.specs
	if len(specs) < 2 {
		c.op("j%d(skip)", h.idx)
		return
	}
	n := rapid.IntRange(2, len(specs)).Draw(c.rt, "conjoinN")
	first := rapid.IntRange(0, len(specs)-n).Draw(c.rt, "conjoinFirst")
	var ids []hash.Hash
	for _, s := range specs[first : first+n] {
		ids = append(ids, s.name)
	}
	name, err := h.st.ConjoinTableFiles(c.ctx, ids)
	res := "T"
	if err != nil {
		res = c05ErrClass(err)
	}
	c.op("j%d(%d of %d -> %s)=%s", h.idx, n, len(specs), verifMShort(name), res)
	c.cls["conjoin="+res] = true
	c.mayPublish = err == nil
	c.check(fmt.Sprintf("after ConjoinTableFiles by handle %d (%s)", h.idx, res), false)
	c.mayPublish = false
}

func (c *c05Case) gc(h *c05Handle) {
	if len(c.order) == 0 {
		c.op("g%d(skip)", h.idx)
		return
	}
	if err := h.st.Rebase(c.ctx); err != nil {
		c.fatalf("handle %d Rebase before GC: %v", h.idx, err)
	}
	if err := h.st.BeginGC(c.ctx, nil, chunks.GCMode_Full); err != nil {
		c.fatalf("handle %d BeginGC: %v", h.idx, err)
	}
	res := "T"
	err := func() error {
		defer h.st.EndGC(chunks.GCMode_Full)
		cfg := chunks.NewGCConfig(chunks.GCMode_Full, chunks.NoArchive, chunks.IncrementalGCTablesDisabled)
		sweeper, err := h.st.MarkAndSweepChunks(c.ctx, func(chunks.Chunk, func(hash.Hash) error) error { return nil },
			func(_ context.Context, hs hash.HashSet) (hash.HashSet, error) { return hs, nil }, nil, cfg, false)
		if err != nil {
			return err
		}
		keep := hash.NewHashSet(c.order...)
		if err := sweeper.SaveHashes(c.ctx, keep); err != nil {
			_ = sweeper.Close(c.ctx)
			return err
		}
		fin, err := sweeper.Finalize(c.ctx)
		if err != nil {
			_ = sweeper.Close(c.ctx)
			return err
		}
		defer fin.Close()
		if err := sweeper.Close(c.ctx); err != nil {
			return err
		}
		return fin.SwapChunksInStore(c.ctx)
	}()
	if errors.Is(err, chunks.ErrNothingToCollect) {
		res = "nothing"
	} else if err != nil {
		res = c05ErrClass(err)
	} else {
		h.clearPending() // the swap drops this store's memtable and novel tables
	}
	prune := false
	if err == nil && rapid.Bool().Draw(c.rt, "pruneAfterGC") {
		prune = true
	}
	c.mayPublish = err == nil
	c.check(fmt.Sprintf("after GC swap by handle %d (%s)", h.idx, res), false)
	c.mayPublish = false
	if prune {
		// what ValueStore.GC does right after the swap
		if perr := h.st.PruneTableFiles(c.ctx); perr != nil {
			c.cls["prune_after_gc_error"] = true
		}
		c.check(fmt.Sprintf("after PruneTableFiles following the GC swap by handle %d", h.idx), true)
	}
	c.op("g%d(prune=%v)=%s", h.idx, prune, res)
	c.cls["gc="+res] = true
}

// age sets the mtimes the grace prune will judge.
func (c *c05Case) age() string {
	mode := rapid.IntRange(0, 9).Draw(c.rt, "ageMode")
	names := verifMListDir(c.dir)
	now := time.Now()
	old := func(i int) time.Time { return now.Add(-2*c05Grace - time.Duration(i)*time.Second) }
	switch {
	case mode < 6:
		for i, n := range names {
			_ = os.Chtimes(filepath.Join(c.dir, n), old(i), old(i))
		}
		return "allOld"
	case mode < 8 && len(names) > 0:
		y := rapid.IntRange(0, len(names)-1).Draw(c.rt, "youngFile")
		for i, n := range names {
			ts := old(i)
			if i == y {
				ts = now.Add(-time.Duration(rapid.IntRange(0, 40).Draw(c.rt, "youngMinutes")) * time.Minute)
			}
			_ = os.Chtimes(filepath.Join(c.dir, n), ts, ts)
		}
		return "young:" + strings.TrimPrefix(names[y], tempTablePrefix)[:4]
	default:
		return "untouched"
	}
}

func (c *c05Case) prune(h *c05Handle) {
	ageing := c.age()
	before := map[string]bool{}
	for _, n := range verifMListDir(c.dir) {
		before[n] = true
	}
	unpub := c.unpublished()
	hookA := rapid.IntRange(0, 3).Draw(c.rt, "afterSnapshotHook") == 0
	hookB := rapid.IntRange(0, 1).Draw(c.rt, "underLockHook") == 0
	// other stores with a persisted-but-unpublished table that is in the directory now (and so
	// in the pruner's snapshot)
	var victims []*c05Handle
	for _, o := range c.hs {
		if o == h {
			continue
		}
		for _, owner := range unpub {
			if owner == o {
				victims = append(victims, o)
				break
			}
		}
	}
	ranA, ranB := false, false
	if hookA {
		_testPruneAfterSnapshotHook = func() {
			ranA = true
			c.nested("afterSnapshot", h, false, nil)
		}
	}
	if hookB {
		_testPruneUnderLockHook = func() {
			ranB = true
			c.check(fmt.Sprintf("under the prune lock of handle %d", h.idx), true)
			c.nested("underLock", h, true, victims)
		}
	}
	stats, err := func() (PruneStats, error) {
		defer func() { _testPruneAfterSnapshotHook, _testPruneUnderLockHook = nil, nil }()
		return h.st.PruneUnreferencedWithGrace(c.ctx, c05Grace)
	}()
	c.joinAsync()
	res := fmt.Sprintf("del%d", stats.FilesDeleted)
	if err != nil {
		res = "E"
		c.cls["prune_error"] = true
	} else if len(stats.Skipped) > 0 {
		res += "skip"
		c.cls["prune_skipped"] = true
	}
	// which files went away, and whose were they
	gone := 0
	for n := range before {
		if _, err := os.Stat(filepath.Join(c.dir, n)); err != nil {
			gone++
			if a, ok := fileNameToAddr(n); ok {
				if _, mine := unpub[a]; mine {
					c.victims++
					c.cls["prune_removed_unpublished_table"] = true
				}
			}
		}
	}
	if stats.FilesDeleted > 0 {
		c.pruneDeleted += stats.FilesDeleted
		if len(unpub) > 0 {
			c.pruneWithUnpublished++
		}
	}
	c.op("p%d(%s,unpub=%d,hookA=%v,hookB=%v)=%s", h.idx, ageing, len(unpub), ranA, ranB, res)
	// nested steps run at the hooks were checked there; the prune itself never publishes
	c.check(fmt.Sprintf("after PruneUnreferencedWithGrace by handle %d (%s)", h.idx, res), true)
}

// nested runs one step of another store at a hook point of the store `outer`.
// lockHeld: the manifest LOCK is held by `outer` for the duration of the hook.
func (c *c05Case) nested(point string, outer *c05Handle, lockHeld bool, victims []*c05Handle) {
	c.hookSteps++
	where := "{" + point + ":"
	if lockHeld && len(victims) > 0 && c.async == nil && rapid.IntRange(0, 9).Draw(c.rt, point+".victim") < 7 {
		// A writer whose persisted-but-unpublished table is about to be judged by the pruner
		// starts its manifest update now; the hook returns once that writer is queued on the LOCK.
		h := victims[rapid.IntRange(0, len(victims)-1).Draw(c.rt, point+".victimIdx")]
		c.launchAsync(h, where, 0)
		c.cls["hook="+point] = true
		c.cls["async_publish_of_prune_candidate"] = true
		return
	}
	h := c.other(point+".handle", outer)
	k := rapid.IntRange(0, 9).Draw(c.rt, point+".action")
	switch {
	case k < 2:
		c.put(h, rapid.IntRange(1, 4).Draw(c.rt, "nput"))
		c.op("%su%d}", where, h.idx)
	case k < 4:
		c.writeTableFile(h, where)
		c.op("}")
	case k < 5 && h.raw == nil:
		c.rawBegin(h, where, false)
		c.op("}")
	case !lockHeld:
		// nothing is locked: a whole publishing step of another store fits here
		switch {
		case h.raw != nil && k < 7:
			c.rawFinish(h, where, false)
		case len(h.files) > 0 && k < 8:
			c.applyAdd(c05ExecAdd(c.ctx, c.prepAdd(h)), where)
		default:
			c.applyCommit(c05ExecCommit(c.ctx, c.prepCommit(h)), where)
		}
		c.op("}")
	case k < 6:
		// a step that needs the LOCK, run synchronously: it must give up with the lock
		// timeout and publish nothing
		r := c05ExecCommit(c.ctx, c.prepCommit(h))
		if r.err == nil {
			c.cls["locked_step_not_blocked"] = true // judged by the directory checks, not here
		}
		c.applyCommit(r, where+"sync:")
		c.op("}")
	default:
		// the same, launched asynchronously and joined after the lock is released
		if c.async != nil {
			return
		}
		c.launchAsync(h, where, k)
	}
	c.cls["hook="+point] = true
}

// launchAsync starts a publishing step of h (raw-path Update if it has one prepared, push-path
// add if it has written table files, else a commit) in its own goroutine while the manifest LOCK
// is held by somebody else, and returns once that goroutine is waiting on the LOCK (it has opened
// its own descriptor on dir/LOCK), has finished, or 60 ms have passed.
func (c *c05Case) launchAsync(h *c05Handle, where string, k int) {
	a := &c05Async{done: make(chan struct{})}
	base := c05LockFDs(c.lockPath)
	switch {
	case h.raw != nil && k < 8:
		raw := h.raw
		h.raw = nil
		next := c05RawNext(raw)
		var got manifestContents
		var err error
		fm := h.st.manifest
		go func() {
			got, err = fm.Update(c.ctx, dherrors.FatalBehaviorError, raw.base.lock, next, &Stats{}, nil)
			close(a.done)
		}()
		a.fin = func() { c.applyRaw(h, raw, next, got, err, false, where+"async:"); c.op("}") }
	case len(h.files) > 0 && k < 8:
		r := c.prepAdd(h)
		go func() { r = c05ExecAdd(c.ctx, r); close(a.done) }()
		a.fin = func() { c.applyAdd(r, where+"async:"); c.op("}") }
	default:
		r := c.prepCommit(h)
		go func() { r = c05ExecCommit(c.ctx, r); close(a.done) }()
		a.fin = func() { c.applyCommit(r, where+"async:"); c.op("}") }
	}
	c.async = a
	c.cls["async_locked_step"] = true
	deadline := time.Now().Add(60 * time.Millisecond)
	for time.Now().Before(deadline) {
		select {
		case <-a.done:
			return
		default:
		}
		if c05LockFDs(c.lockPath) > base {
			c.cls["async_writer_queued_on_lock"] = true
			return
		}
		time.Sleep(50 * time.Microsecond)
	}
}

// c05LockFDs counts this process' open descriptors on the directory's LOCK file.
func c05LockFDs(lockPath string) int {
	ents, err := os.ReadDir("/proc/self/fd")
	if err != nil {
		return 0
	}
	n := 0
	for _, e := range ents {
		if l, err := os.Readlink("/proc/self/fd/" + e.Name()); err == nil && l == lockPath {
			n++
		}
	}
	return n
}

func (c *c05Case) joinAsync() {
	if c.async == nil {
		return
	}
	a := c.async
	select {
	case <-a.done:
	case <-time.After(60 * time.Second):
		vh.Inconclusive(c.t, "asynchronous step did not finish within 60 s")
	}
	c.async = nil
	a.fin()
}

func c05RunCase(t *testing.T, rt *rapid.T, rec *vh.Recorder) {
	dir, rm := vh.ScratchDir(t, "c05-")
	defer rm()
	c := &c05Case{ctx: context.Background(), t: t, rt: rt, dir: dir, cls: map[string]bool{}, committed: map[hash.Hash][]byte{},
		gen: &verifMChunkGen{salt: "c05"}}
	if real, err := filepath.EvalSymlinks(dir); err == nil {
		c.lockPath = filepath.Join(real, lockFileName)
	} else {
		c.lockPath = filepath.Join(dir, lockFileName)
	}
	defer func() {
		_testPruneAfterSnapshotHook, _testPruneUnderLockHook = nil, nil
		if c.async != nil {
			<-c.async.done
		}
		c.closeAll()
	}()
	cfg := "bare"
	if rapid.Bool().Draw(rt, "precreateManifest") {
		fm, err := getFileManifest(c.ctx, dir)
		if err != nil {
			rt.Fatalf("getFileManifest: %v", err)
		}
		first := manifestContents{nbfVers: constants.FormatDoltString, lock: journalAddr}
		_, err = fm.Update(c.ctx, dherrors.FatalBehaviorError, hash.Hash{}, first, &Stats{}, nil)
		_ = fm.Close()
		if err != nil {
			rt.Fatalf("pre-create manifest: %v", err)
		}
		cfg = "manifest"
		c.initial = true
		c.exists, c.cur, err = parseIfExists(c.ctx, dir, nil)
		if err != nil || !c.exists {
			rt.Fatalf("initial manifest unreadable: %v", err)
		}
	}
	k := rapid.IntRange(2, 4).Draw(rt, "handles")
	var ms []string
	for i := 0; i < k; i++ {
		h := &c05Handle{idx: i, memSz: rapid.SampledFrom([]uint64{1 << 12, 1 << 12, 1 << 16}).Draw(rt, fmt.Sprintf("memSz%d", i))}
		c.hs = append(c.hs, h)
		c.open(h)
		ms = append(ms, fmt.Sprint(h.memSz))
	}
	c.op("cfg=%s memSz=%s |", cfg, strings.Join(ms, ","))

	n := rapid.IntRange(10, 36).Draw(rt, "steps")
	for s := 0; s < n; s++ {
		h := c.hs[rapid.IntRange(0, k-1).Draw(rt, "handle")]
		publishedBefore := c.versions
		switch a := rapid.IntRange(0, 99).Draw(rt, "action"); {
		case a < 12:
			cnt := rapid.IntRange(1, 6).Draw(rt, "nput")
			c.put(h, cnt)
			c.op("u%dx%d", h.idx, cnt)
			c.check("after put", true)
		case a < 30:
			c.applyCommit(c05ExecCommit(c.ctx, c.prepCommit(h)), "")
		case a < 38:
			c.writeTableFile(h, "")
			c.check("after WriteTableFile", true)
		case a < 46:
			if len(h.files) == 0 {
				c.writeTableFile(h, "")
			}
			c.applyAdd(c05ExecAdd(c.ctx, c.prepAdd(h)), "")
		case a < 62:
			if h.raw == nil {
				c.rawBegin(h, "", rapid.IntRange(0, 3).Draw(rt, "readHook") == 0)
				c.check("after raw persist", true)
			} else {
				c.rawFinish(h, "", rapid.IntRange(0, 2).Draw(rt, "writeHook") > 0)
			}
		case a < 68:
			c.conjoin(h)
		case a < 73:
			c.gc(h)
		case a < 92:
			c.prune(h)
		case a < 95:
			if err := h.st.Rebase(c.ctx); err != nil {
				c.fatalf("handle %d Rebase: %v", h.idx, err)
			}
			c.op("b%d", h.idx)
		case a < 98:
			c.reopen(h)
			c.op("r%d", h.idx)
		default:
			c.op("o")
			c.fresh("explicit fresh open")
		}
		if c.versions != publishedBefore {
			c.fresh(fmt.Sprintf("after step %d (%s)", s, c.ops[len(c.ops)-1]))
		}
	}
	c.closeAll()
	c.check("after closing every store", true)
	c.fresh("after closing every store")

	nontrivial := c.pruneWithUnpublished >= 1
	cls := []string{"cfg=" + cfg, fmt.Sprintf("handles=%d", k)}
	if c.pruneDeleted > 0 {
		cls = append(cls, "prune_deleted")
	}
	if c.refused > 0 {
		cls = append(cls, "publish_refused_missing_table")
	}
	if c.versions >= 5 {
		cls = append(cls, "versions>=5")
	}
	var ks []string
	for kk := range c.cls {
		ks = append(ks, kk)
	}
	sort.Strings(ks)
	cls = append(cls, ks...)
	rec.Evals(c.checks)
	rec.Case(c.hist(), nontrivial, cls...)
}

func TestVerif_C05(t *testing.T) {
	rec := vh.NewRecorder("C05", "schedule", "exploration", c05Rule,
		"separately opened stores in one process stand in for processes (each has its own LOCK handle and table persister; flock conflicts between them as between processes)",
		"PruneTableFiles (the unconditional prune) only runs directly after a GC swap of the same store, as ValueStore.GC does; it is not scheduled concurrently with other writers' publishes (it is documented as unsafe without exclusive access, which is why the grace prune exists)",
		"a store whose GC generation is stale is rebased before AddTableFilesToManifest (pushers open the destination right before they add)",
		"a store whose commit returned an error is closed and reopened (it holds a table it can never publish)",
		"file ages are set relative to the real clock in steps of minutes/hours around a 1 h grace period; 'exactly at the cutoff' is not generated",
		"the GC keeps every committed chunk (synthetic roots), so committed chunks stay readable across swaps")
	defer rec.Write(t)
	logrus.SetLevel(logrus.ErrorLevel)
	vh.Check(t, "schedule", 400, 700, func(rt *rapid.T) { c05RunCase(t, rt, rec) })
}
