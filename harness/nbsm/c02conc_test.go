package nbs

// C02, concurrent variants (thorough tier).
//
//   TestVerif_C02_Conc  — real goroutines on shared and separate handles (built with -race);
//   TestVerif_C02_Proc  — separate worker processes (this test binary re-executing itself)
//                         sharing one directory.
//
// Both record a timed history of commit(cur,last) / read-root operations and check it for
// linearizability against the CAS-register model with porcupine; both end with a fresh open
// that must read every chunk put before a successful commit.

import (
	"bytes"
	"context"
	"encoding/json"
	"fmt"
	"os"
	"os/exec"
	"path/filepath"
	"sort"
	"strings"
	"sync"
	"testing"
	"time"

	"github.com/anishathalye/porcupine"
	"github.com/sirupsen/logrus"
	"golang.org/x/sys/unix"
	"pgregory.net/rapid"

	"github.com/dolthub/dolt/go/store/chunks"
	"github.com/dolthub/dolt/go/store/hash"
	"github.com/dolthub/dolt/go/zzverif/vh"
)

const c02ConcRule = "2-5 goroutines over 1-3 file-manifest handles on one directory (goroutines may share a handle), or all on the single journal writer handle with read-only fresh openers; each goroutine runs 6-14 drawn operations: commit of a fresh unique root with last = {Root() of its handle, Rebase+Root(), a stale older root}, rebase+read, fresh open+read, extra puts. The recorded history (call/return monotonic stamps, results) must be linearizable w.r.t. a CAS register where a successful commit requires state==last and sets state=cur, a failed/errored commit changes nothing (it may fail for any reason: 'only if'), and a read returns the state; every chunk a goroutine put before its own successful commit must be readable from a fresh open made right after it and at the end. Non-trivial: >=1 failed CAS and >=2 goroutines with a successful commit; distinct by parameters + outcome vector."

const c02ProcRule = "2-3 worker processes (the test binary re-executing itself), each with its own file-manifest store on the shared directory, start together and run 8-18 drawn operations (commit fresh root with last = own Root() / Rebase+Root(), rebase+read, fresh open+read); stamps are CLOCK_MONOTONIC. Same linearizability oracle as the goroutine variant plus a final fresh open in the parent that must see the last linearized root and read every chunk put before a successful commit. Non-trivial: >=1 failed CAS and >=2 workers with a successful commit."

type c02In struct {
	Kind string // "cas" | "read"
	Last int
	Cur  int
}
type c02Out struct {
	OK   bool
	Root int
}

func c02RegisterModel() porcupine.Model {
	return porcupine.Model{
		Init: func() interface{} { return 0 },
		Step: func(state, input, output interface{}) (bool, interface{}) {
			st, in, out := state.(int), input.(c02In), output.(c02Out)
			if in.Kind == "cas" {
				if out.OK {
					return st == in.Last, in.Cur
				}
				return true, st // a commit may fail for reasons other than the root having moved
			}
			return out.Root == st, st
		},
		Equal: func(a, b interface{}) bool { return a.(int) == b.(int) },
		DescribeOperation: func(input, output interface{}) string {
			in, out := input.(c02In), output.(c02Out)
			if in.Kind == "cas" {
				return fmt.Sprintf("cas(%d->%d)=%v", in.Last, in.Cur, out.OK)
			}
			return fmt.Sprintf("read=%d", out.Root)
		},
	}
}

// c02Rec is one recorded operation; roots are hex strings so that it can cross processes.
type c02Rec struct {
	Client int    `json:"client"`
	Kind   string `json:"kind"` // cas | read | fresh
	Last   string `json:"last,omitempty"`
	Cur    string `json:"cur,omitempty"`
	OK     bool   `json:"ok"`
	Err    string `json:"err,omitempty"`
	Root   string `json:"root,omitempty"`
	Call   int64  `json:"call"`
	Ret    int64  `json:"ret"`
}

func c02CheckHistory(recs []c02Rec) (porcupine.CheckResult, string) {
	ids := map[string]int{hash.Hash{}.String(): 0}
	id := func(s string) int {
		if s == "" {
			s = hash.Hash{}.String()
		}
		if v, ok := ids[s]; ok {
			return v
		}
		ids[s] = len(ids)
		return ids[s]
	}
	// roots get their ids in call order so that the printed history is stable
	sort.SliceStable(recs, func(i, j int) bool { return recs[i].Call < recs[j].Call })
	var ops []porcupine.Operation
	var lines []string
	for _, r := range recs {
		var in c02In
		var out c02Out
		if r.Kind == "cas" {
			in = c02In{Kind: "cas", Last: id(r.Last), Cur: id(r.Cur)}
			out = c02Out{OK: r.OK && r.Err == ""}
		} else {
			if r.Err != "" {
				continue // a read that did not happen constrains nothing
			}
			in = c02In{Kind: "read"}
			out = c02Out{Root: id(r.Root)}
		}
		ops = append(ops, porcupine.Operation{ClientId: r.Client, Input: in, Call: r.Call, Output: out, Return: r.Ret})
		d := c02RegisterModel().DescribeOperation(in, out)
		if r.Err != "" {
			d += " err=" + r.Err
		}
		lines = append(lines, fmt.Sprintf("[%d..%d] g%d %s(%s)", r.Call/1000, r.Ret/1000, r.Client, d, r.Kind))
	}
	res := porcupine.CheckOperationsTimeout(c02RegisterModel(), ops, 60*time.Second)
	return res, strings.Join(lines, "\n")
}

type c02ConcOp struct {
	kind  string // commitCached, commitRebased, commitStale, read, fresh, put
	nput  int
	sizes []int
}

func c02DrawOps(rt *rapid.T, label string, n int, withStale bool) []c02ConcOp {
	ops := make([]c02ConcOp, n)
	for i := range ops {
		k := rapid.IntRange(0, 19).Draw(rt, fmt.Sprintf("%s.op%d", label, i))
		switch {
		case k < 6:
			ops[i].kind = "commitCached"
		case k < 11:
			ops[i].kind = "commitRebased"
		case k < 12 && withStale:
			ops[i].kind = "commitStale"
		case k < 15:
			ops[i].kind = "read"
		case k < 18:
			ops[i].kind = "fresh"
		default:
			ops[i].kind = "put"
		}
		ops[i].nput = rapid.IntRange(0, 3).Draw(rt, fmt.Sprintf("%s.nput%d", label, i))
		for j := 0; j <= ops[i].nput; j++ {
			ops[i].sizes = append(ops[i].sizes, rapid.IntRange(1, 900).Draw(rt, fmt.Sprintf("%s.size%d.%d", label, i, j)))
		}
	}
	return ops
}

// c02Worker runs one client's operations against st. now() must be comparable across clients.
// It returns the recorded operations and, per successful commit, nothing else: the chunks put
// before each successful commit accumulate in *durable.
func c02Worker(ctx context.Context, client int, st *NomsBlockStore, dir string, journal bool, ops []c02ConcOp, now func() int64,
	durable map[hash.Hash][]byte, freshOpenErrs *int) (recs []c02Rec, violation string) {
	gen := &verifMChunkGen{salt: fmt.Sprintf("c02g%d", client)}
	pending := map[hash.Hash][]byte{}
	var seen []hash.Hash // roots this client has observed, for stale lasts
	freshOpen := func() (*NomsBlockStore, error) {
		if journal {
			return verifMOpenJournal(ctx, dir)
		}
		return verifMOpenFile(ctx, dir, 1<<16, 1024)
	}
	freshRead := func(check map[hash.Hash][]byte) string {
		call := now()
		fs, err := freshOpen()
		var r hash.Hash
		if err == nil {
			r, err = fs.Root(ctx)
		}
		ret := now()
		rec := c02Rec{Client: client, Kind: "fresh", Root: r.String(), Call: call, Ret: ret}
		if err != nil {
			rec.Err = err.Error()
			*freshOpenErrs++
		}
		recs = append(recs, rec)
		if fs == nil {
			return ""
		}
		defer fs.Close()
		if err != nil {
			return ""
		}
		for a, data := range check {
			got, gerr := fs.Get(ctx, a)
			if gerr != nil {
				return fmt.Sprintf("client %d: fresh open after own successful commit: Get(%s): %v", client, verifMShort(a), gerr)
			}
			if !bytes.Equal(got.Data(), data) {
				return fmt.Sprintf("client %d: chunk %s put before a successful commit is unreadable from a fresh open (got %d bytes, want %d)", client, verifMShort(a), len(got.Data()), len(data))
			}
		}
		return ""
	}
	for _, op := range ops {
		switch op.kind {
		case "put":
			for _, sz := range op.sizes {
				ch := gen.make(sz, sz%2 == 0)
				if err := st.Put(ctx, ch, verifMNoAddrs); err != nil {
					return recs, fmt.Sprintf("client %d: Put: %v", client, err)
				}
				pending[ch.Hash()] = ch.Data()
			}
		case "read":
			call := now()
			err := st.Rebase(ctx)
			var r hash.Hash
			if err == nil {
				r, err = st.Root(ctx)
			}
			ret := now()
			rec := c02Rec{Client: client, Kind: "read", Root: r.String(), Call: call, Ret: ret}
			if err != nil {
				rec.Err = err.Error()
			} else {
				seen = append(seen, r)
			}
			recs = append(recs, rec)
		case "fresh":
			if v := freshRead(nil); v != "" {
				return recs, v
			}
		default: // commits
			var last hash.Hash
			var err error
			switch op.kind {
			case "commitRebased":
				if err = st.Rebase(ctx); err == nil {
					last, err = st.Root(ctx)
				}
			case "commitStale":
				if len(seen) > 0 {
					last = seen[0]
				}
			default:
				last, err = st.Root(ctx)
			}
			if err != nil {
				return recs, fmt.Sprintf("client %d: Rebase/Root: %v", client, err)
			}
			for _, sz := range op.sizes[1:] {
				ch := gen.make(sz+40, sz%2 == 0)
				if perr := st.Put(ctx, ch, verifMNoAddrs); perr != nil {
					return recs, fmt.Sprintf("client %d: Put: %v", client, perr)
				}
				pending[ch.Hash()] = ch.Data()
			}
			// the new root is a chunk unique to this client and operation
			root := gen.make(op.sizes[0]+60, false)
			if perr := st.Put(ctx, root, verifMNoAddrs); perr != nil {
				return recs, fmt.Sprintf("client %d: Put(root): %v", client, perr)
			}
			pending[root.Hash()] = root.Data()
			call := now()
			ok, cerr := st.Commit(ctx, root.Hash(), last)
			ret := now()
			rec := c02Rec{Client: client, Kind: "cas", Last: last.String(), Cur: root.Hash().String(), OK: ok, Call: call, Ret: ret}
			if cerr != nil {
				rec.Err = cerr.Error()
				rec.OK = false
				// after an error nothing this client put so far is required any more
				pending = map[hash.Hash][]byte{}
			}
			recs = append(recs, rec)
			if rec.OK {
				seen = append(seen, root.Hash())
				mine := pending
				pending = map[hash.Hash][]byte{}
				for a, d := range mine {
					durable[a] = d
				}
				if v := freshRead(mine); v != "" {
					return recs, v
				}
			}
		}
	}
	return recs, ""
}

func c02Summary(recs []c02Rec, clients int) (succ, failed int, clientsWithSuccess int, vec string) {
	per := make([]int, clients)
	var b strings.Builder
	sort.SliceStable(recs, func(i, j int) bool {
		if recs[i].Client != recs[j].Client {
			return recs[i].Client < recs[j].Client
		}
		return recs[i].Call < recs[j].Call
	})
	lastC := -1
	for _, r := range recs {
		if r.Client != lastC {
			fmt.Fprintf(&b, " g%d:", r.Client)
			lastC = r.Client
		}
		switch {
		case r.Kind == "cas" && r.OK:
			succ++
			per[r.Client]++
			b.WriteByte('T')
		case r.Kind == "cas" && r.Err != "":
			failed++
			b.WriteByte('E')
		case r.Kind == "cas":
			failed++
			b.WriteByte('F')
		case r.Kind == "read":
			b.WriteByte('r')
		default:
			b.WriteByte('o')
		}
	}
	for _, n := range per {
		if n > 0 {
			clientsWithSuccess++
		}
	}
	return succ, failed, clientsWithSuccess, b.String()
}

func c02FinalCheck(ctx context.Context, dir string, journal bool, durable map[hash.Hash][]byte) (hash.Hash, string) {
	var fs *NomsBlockStore
	var err error
	if journal {
		fs, err = verifMOpenJournal(ctx, dir)
	} else {
		fs, err = verifMOpenFile(ctx, dir, 1<<16, 1024)
	}
	if err != nil {
		return hash.Hash{}, fmt.Sprintf("final fresh open: %v  dir:%s", err, verifMDirSummary(dir))
	}
	defer fs.Close()
	r, err := fs.Root(ctx)
	if err != nil {
		return hash.Hash{}, fmt.Sprintf("final fresh open Root: %v", err)
	}
	var addrs []hash.Hash
	for a := range durable {
		addrs = append(addrs, a)
	}
	sort.Slice(addrs, func(i, j int) bool { return addrs[i].Less(addrs[j]) })
	for _, a := range addrs {
		got, gerr := fs.Get(ctx, a)
		if gerr != nil || !bytes.Equal(got.Data(), durable[a]) {
			return r, fmt.Sprintf("final fresh open: chunk %s put before a successful commit is unreadable (err=%v, got %d bytes, want %d)  dir:%s", verifMShort(a), gerr, len(got.Data()), len(durable[a]), verifMDirSummary(dir))
		}
	}
	return r, ""
}

func TestVerif_C02_Conc(t *testing.T) {
	rec := vh.NewRecorder("C02", "goroutines", "exploration", c02ConcRule,
		"a failed or errored commit constrains nothing in the register model (e.g. the 100 ms manifest-lock timeout under load)",
		"a read-only journal open that returns an error while the writer is appending is counted (class fresh_open_error), not judged")
	defer rec.Write(t)
	logrus.SetLevel(logrus.ErrorLevel)
	vh.Check(t, "goroutines", 40, 80, func(rt *rapid.T) {
		ctx := context.Background()
		dir, rm := vh.ScratchDir(t, "c02c-")
		defer rm()
		journal := rapid.IntRange(0, 3).Draw(rt, "journal") == 0
		g := rapid.IntRange(2, 5).Draw(rt, "goroutines")
		nh := 1
		if !journal {
			nh = rapid.IntRange(1, 3).Draw(rt, "handles")
		}
		var hs []*NomsBlockStore
		defer func() {
			for _, h := range hs {
				_ = h.Close()
			}
		}()
		var memSzs []uint64
		for i := 0; i < nh; i++ {
			var st *NomsBlockStore
			var err error
			if journal {
				st, err = verifMOpenJournal(ctx, dir)
				if err == nil {
					_, err = st.Root(ctx)
				}
			} else {
				ms := rapid.SampledFrom([]uint64{1 << 12, 1 << 16, 1 << 20}).Draw(rt, fmt.Sprintf("memSz%d", i))
				memSzs = append(memSzs, ms)
				st, err = verifMOpenFile(ctx, dir, ms, 1024)
			}
			if err != nil {
				rt.Fatalf("open: %v", err)
			}
			hs = append(hs, st)
		}
		assign := make([]int, g)
		plans := make([][]c02ConcOp, g)
		for i := 0; i < g; i++ {
			assign[i] = rapid.IntRange(0, nh-1).Draw(rt, fmt.Sprintf("handleOf%d", i))
			plans[i] = c02DrawOps(rt, fmt.Sprintf("g%d", i), rapid.IntRange(6, 14).Draw(rt, fmt.Sprintf("nops%d", i)), true)
		}
		start := time.Now()
		now := func() int64 { return time.Since(start).Nanoseconds() }
		var wg sync.WaitGroup
		recsPer := make([][]c02Rec, g)
		viol := make([]string, g)
		durPer := make([]map[hash.Hash][]byte, g)
		openErrs := make([]int, g)
		gate := make(chan struct{})
		for i := 0; i < g; i++ {
			durPer[i] = map[hash.Hash][]byte{}
			wg.Add(1)
			go func(i int) {
				defer wg.Done()
				<-gate
				recsPer[i], viol[i] = c02Worker(ctx, i, hs[assign[i]], dir, journal, plans[i], now, durPer[i], &openErrs[i])
			}(i)
		}
		close(gate)
		wg.Wait()
		var all []c02Rec
		durable := map[hash.Hash][]byte{}
		nOpenErr := 0
		for i := 0; i < g; i++ {
			all = append(all, recsPer[i]...)
			for a, d := range durPer[i] {
				durable[a] = d
			}
			nOpenErr += openErrs[i]
		}
		for i, v := range viol {
			if v != "" {
				_, hist := c02CheckHistory(all)
				rt.Fatalf("goroutine %d: %s\nhistory:\n%s", i, v, hist)
			}
		}
		if nOpenErr > 0 && !journal {
			var msgs []string
			for _, r := range all {
				if r.Kind == "fresh" && r.Err != "" {
					msgs = append(msgs, r.Err)
				}
			}
			rt.Fatalf("fresh open of a table-file store failed while writers were committing: %v  dir:%s", msgs, verifMDirSummary(dir))
		}
		// final read after everything returned
		for _, h := range hs {
			_ = h.Close()
		}
		hs = nil
		fr, v := c02FinalCheck(ctx, dir, journal, durable)
		if v != "" {
			_, hist := c02CheckHistory(all)
			rt.Fatalf("%s\nhistory:\n%s", v, hist)
		}
		end := now()
		all = append(all, c02Rec{Client: g, Kind: "fresh", Root: fr.String(), Call: end, Ret: end + 1})
		res, hist := c02CheckHistory(all)
		_, failed, cws, vec := c02Summary(all, g+1)
		cfg := "file"
		if journal {
			cfg = "journal"
		}
		desc := fmt.Sprintf("cfg=%s goroutines=%d handles=%d assign=%v memSz=%v outcomes:%s", cfg, g, nh, assign, memSzs, vec)
		classes := []string{"cfg=" + cfg, fmt.Sprintf("goroutines=%d", g), fmt.Sprintf("handles=%d", nh)}
		if nOpenErr > 0 {
			classes = append(classes, "fresh_open_error")
		}
		if failed > 0 {
			classes = append(classes, "failed_cas")
		}
		switch res {
		case porcupine.Illegal:
			rt.Fatalf("history is not linearizable w.r.t. the CAS register (%s)\n%s", desc, hist)
		case porcupine.Unknown:
			classes = append(classes, "porcupine_timeout")
		}
		rec.Evals(len(all))
		rec.Case(desc, failed >= 1 && cws >= 2 && res == porcupine.Ok, classes...)
	})
}

// ---------------------------------------------------------------------------------------
// process variant

type c02ProcSpec struct {
	Client int         `json:"client"`
	Dir    string      `json:"dir"`
	MemSz  uint64      `json:"mem_sz"`
	Ops    []c02ProcOp `json:"ops"`
	Go     string      `json:"go"`  // workers start when this file exists
	Out    string      `json:"out"` // result file
}
type c02ProcOp struct {
	Kind  string `json:"kind"`
	Sizes []int  `json:"sizes"`
}
type c02ProcResult struct {
	Recs      []c02Rec          `json:"recs"`
	Violation string            `json:"violation"`
	Durable   map[string][]byte `json:"durable"`
	OpenErrs  int               `json:"open_errs"`
}

func c02MonoNow() int64 {
	var ts unix.Timespec
	_ = unix.ClockGettime(unix.CLOCK_MONOTONIC, &ts)
	return ts.Nano()
}

// TestVerif_C02_ProcWorker is the body of a worker process; it does nothing unless the parent
// passed a spec.
func TestVerif_C02_ProcWorker(t *testing.T) {
	specPath := os.Getenv("VERIFM_C02_SPEC")
	if specPath == "" {
		t.Skip("worker entry point of TestVerif_C02_Proc")
	}
	logrus.SetLevel(logrus.ErrorLevel)
	var spec c02ProcSpec
	b, err := os.ReadFile(specPath)
	if err == nil {
		err = json.Unmarshal(b, &spec)
	}
	if err != nil {
		t.Fatalf("spec: %v", err)
	}
	ctx := context.Background()
	res := c02ProcResult{Durable: map[string][]byte{}}
	write := func() {
		ob, _ := json.Marshal(res)
		_ = os.WriteFile(spec.Out+".tmp", ob, 0o644)
		_ = os.Rename(spec.Out+".tmp", spec.Out)
	}
	st, err := verifMOpenFile(ctx, spec.Dir, spec.MemSz, 1024)
	if err != nil {
		res.Violation = "worker open: " + err.Error()
		write()
		return
	}
	defer st.Close()
	_ = os.WriteFile(spec.Out+".ready", []byte("ready"), 0o644)
	deadline := time.Now().Add(90 * time.Second)
	for {
		if _, err := os.Stat(spec.Go); err == nil {
			break
		}
		if time.Now().After(deadline) {
			res.Violation = "ENV: start signal never came"
			write()
			return
		}
		time.Sleep(200 * time.Microsecond)
	}
	ops := make([]c02ConcOp, len(spec.Ops))
	for i, o := range spec.Ops {
		ops[i] = c02ConcOp{kind: o.Kind, sizes: o.Sizes, nput: len(o.Sizes) - 1}
	}
	durable := map[hash.Hash][]byte{}
	res.Recs, res.Violation = c02Worker(ctx, spec.Client, st, spec.Dir, false, ops, c02MonoNow, durable, &res.OpenErrs)
	for a, d := range durable {
		res.Durable[a.String()] = d
	}
	write()
}

func TestVerif_C02_Proc(t *testing.T) {
	rec := vh.NewRecorder("C02", "processes", "exploration", c02ProcRule,
		"worker processes are file-manifest stores (a journaling store admits one writer process by construction)")
	defer rec.Write(t)
	logrus.SetLevel(logrus.ErrorLevel)
	self, err := os.Executable()
	if err != nil {
		vh.Inconclusive(t, "cannot find own executable: %v", err)
	}
	vh.Check(t, "processes", 10, 25, func(rt *rapid.T) {
		ctx := context.Background()
		dir, rm := vh.ScratchDir(t, "c02p-")
		defer rm()
		ctl, rmc := vh.ScratchDir(t, "c02pctl-")
		defer rmc()
		w := rapid.IntRange(2, 3).Draw(rt, "workers")
		var cmds []*exec.Cmd
		var specs []c02ProcSpec
		var memSzs []uint64
		for i := 0; i < w; i++ {
			ops := c02DrawOps(rt, fmt.Sprintf("w%d", i), rapid.IntRange(8, 18).Draw(rt, fmt.Sprintf("nops%d", i)), true)
			sp := c02ProcSpec{Client: i, Dir: dir, MemSz: rapid.SampledFrom([]uint64{1 << 12, 1 << 16, 1 << 20}).Draw(rt, fmt.Sprintf("memSz%d", i)),
				Go: filepath.Join(ctl, "go"), Out: filepath.Join(ctl, fmt.Sprintf("out%d.json", i))}
			memSzs = append(memSzs, sp.MemSz)
			for _, o := range ops {
				sp.Ops = append(sp.Ops, c02ProcOp{Kind: o.kind, Sizes: o.sizes})
			}
			specs = append(specs, sp)
			b, _ := json.Marshal(sp)
			sf := filepath.Join(ctl, fmt.Sprintf("spec%d.json", i))
			if err := os.WriteFile(sf, b, 0o644); err != nil {
				vh.Inconclusive(t, "write spec: %v", err)
			}
			cmd := exec.Command(self, "-test.run", "^TestVerif_C02_ProcWorker$", "-test.count=1", "-test.timeout=200s")
			cmd.Env = append(os.Environ(), "VERIFM_C02_SPEC="+sf, "VERIF_EVIDENCE_DIR=")
			cmd.Dir = ctl
			var outb bytes.Buffer
			cmd.Stdout, cmd.Stderr = &outb, &outb
			if err := cmd.Start(); err != nil {
				vh.Inconclusive(t, "start worker: %v", err)
			}
			cmds = append(cmds, cmd)
		}
		// wait until every worker has loaded and opened its store, then release them together
		readyDeadline := time.Now().Add(60 * time.Second)
		for i := 0; i < w; {
			if _, err := os.Stat(specs[i].Out + ".ready"); err == nil {
				i++
				continue
			}
			if _, err := os.Stat(specs[i].Out); err == nil {
				i++ // the worker already gave up and wrote its result
				continue
			}
			if time.Now().After(readyDeadline) {
				for _, cmd := range cmds {
					_ = cmd.Process.Kill()
				}
				vh.Inconclusive(t, "worker %d did not become ready in 60 s", i)
			}
			time.Sleep(2 * time.Millisecond)
		}
		_ = os.WriteFile(filepath.Join(ctl, "go"), []byte("go"), 0o644)
		for i, cmd := range cmds {
			if err := cmd.Wait(); err != nil {
				out := cmd.Stdout.(*bytes.Buffer).String()
				if len(out) > 3000 {
					out = out[len(out)-3000:]
				}
				// a worker that crashes is kept for triage, not judged here
				vh.Inconclusive(t, "worker %d died: %v\n%s", i, err, out)
			}
		}
		var all []c02Rec
		durable := map[hash.Hash][]byte{}
		nOpenErr := 0
		for i := range specs {
			b, err := os.ReadFile(specs[i].Out)
			var res c02ProcResult
			if err == nil {
				err = json.Unmarshal(b, &res)
			}
			if err != nil {
				vh.Inconclusive(t, "worker %d result: %v", i, err)
			}
			if strings.HasPrefix(res.Violation, "ENV:") {
				vh.Inconclusive(t, "worker %d: %s", i, res.Violation)
			}
			all = append(all, res.Recs...)
			for a, d := range res.Durable {
				durable[hash.Parse(a)] = d
			}
			nOpenErr += res.OpenErrs
			if res.Violation != "" {
				_, hist := c02CheckHistory(all)
				rt.Fatalf("worker %d: %s\nhistory so far:\n%s", i, res.Violation, hist)
			}
		}
		if nOpenErr > 0 {
			var msgs []string
			for _, r := range all {
				if r.Kind == "fresh" && r.Err != "" {
					msgs = append(msgs, r.Err)
				}
			}
			rt.Fatalf("fresh open of a table-file store failed while other processes were committing: %v  dir:%s", msgs, verifMDirSummary(dir))
		}
		fr, v := c02FinalCheck(ctx, dir, false, durable)
		if v != "" {
			_, hist := c02CheckHistory(all)
			rt.Fatalf("%s\nhistory:\n%s", v, hist)
		}
		end := c02MonoNow()
		all = append(all, c02Rec{Client: w, Kind: "fresh", Root: fr.String(), Call: end, Ret: end + 1})
		res, hist := c02CheckHistory(all)
		_, failed, cws, vec := c02Summary(all, w+1)
		desc := fmt.Sprintf("workers=%d memSz=%v outcomes:%s", w, memSzs, vec)
		classes := []string{fmt.Sprintf("workers=%d", w)}
		if failed > 0 {
			classes = append(classes, "failed_cas")
		}
		// did operations of different workers overlap in time at all?
		overlap := false
		for i := range all {
			for j := range all {
				if all[i].Client != all[j].Client && all[i].Kind == "cas" && all[j].Kind == "cas" && all[i].Call < all[j].Ret && all[j].Call < all[i].Ret {
					overlap = true
				}
			}
		}
		if overlap {
			classes = append(classes, "overlapping_commits")
		}
		switch res {
		case porcupine.Illegal:
			rt.Fatalf("history is not linearizable w.r.t. the CAS register (%s)\n%s", desc, hist)
		case porcupine.Unknown:
			classes = append(classes, "porcupine_timeout")
		}
		rec.Evals(len(all))
		rec.Case(desc, failed >= 1 && cws >= 2 && res == porcupine.Ok, classes...)
	})
}

var _ = chunks.EmptyChunk
