#!/usr/bin/env python3
"""Regenerate /verif/MANIFEST.json from harness/registry.json (single source of truth)."""
import json, os, sys
V = os.path.dirname(os.path.dirname(os.path.abspath(__file__)))
sys.path.insert(0, os.path.join(V, 'lib'))
import driver
reg = driver.load_registry()
props = [json.loads(l) for l in open(os.path.join(V, 'properties.jsonl')) if l.strip()]
checks, na = [], []
claimed = set(json.load(open(os.path.join(V, 'harness', 'claimed.json'))))
for p in props:
    pid = p['id']
    r = reg['properties'].get(pid)
    if not r or r.get('unclaimed') or pid not in claimed:
        na.append({'property_id': pid, 'reason': (reg.get('not_applicable') or {}).get(pid, 'check not built yet in this round; see DESIGN.md for the planned generator and oracle')})
        continue
    engines = sorted({x['engine'] for x in r['runs']})
    c = {'property_id': pid,
         'quick_cmd': 'bin/check %s --tier quick' % pid,
         'thorough_cmd': 'bin/check %s --tier thorough' % pid,
         'evidence_file': 'evidence/%s.json' % pid,
         'replay_cmd_template': 'bin/check %s --replay {path}' % pid,
         'engine': '+'.join(engines),
         'level_claimed': {'category': r.get('level', 'exploration'), 'text': r['level_text'], 'design_ref': 'DESIGN.md §3 ' + pid},
         'level_note': r['level_note'],
         'technique': r['technique']}
    checks.append(c)
m = {'version': 1,
     'setup_cmd': 'bin/setup',
     'hooks': {'guard': 'verif', 'enable': 'none needed: harness tests are compiled into dolt\'s module with go test -overlay/-modfile from /verif/harness; no hook commit exists in /repo',
               'baseline_off_cmd': 'cd /repo/go && GOTOOLCHAIN=local GOFLAGS=-mod=mod GOPROXY=off /root/go/pkg/mod/golang.org/toolchain@v0.0.1-go1.26.2.linux-amd64/bin/go test -vet=off -count=1 -timeout 25m ./...',
               'source_commits': [], 'add_only': True},
     'engines': [{'name': n, 'path': e['dir'], 'serves_properties': sorted(pid for pid, r in reg['properties'].items() if not r.get('unclaimed') and any(x['engine'] == n for x in r['runs'])),
                  'kind_free_text': e.get('about', 'rapid property tests overlaid into ' + e['pkg'])} for n, e in sorted(reg['engines'].items())],
     'checks': checks,
     'notes': reg.get('notes', ''),
     'not_applicable': na}
open(os.path.join(V, 'MANIFEST.json'), 'w').write(json.dumps(m, indent=1) + '\n')
try:
    import jsonschema
    jsonschema.validate(m, json.load(open('/root/.vp/MANIFEST.schema.json')))
    print('MANIFEST.json valid: %d checks, %d not_applicable' % (len(checks), len(na)))
except ImportError:
    print('MANIFEST.json written (jsonschema not importable here): %d checks, %d not_applicable' % (len(checks), len(na)))
