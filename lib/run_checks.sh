#!/bin/bash
# run_checks.sh <logfile> <ID>... : run quick checks one after another, log one summary block per check
LOG=$1; shift
for id in "$@"; do
  s=$(date +%s)
  out=$(cd /verif && bin/check $id 2>&1); rc=$?
  e=$(date +%s)
  { echo "=== $id rc=$rc wall=$((e-s))s"; echo "$out" | grep -E "^KNOWN-FINDING|^OK|^VIOLATION|inconclusive" | cut -c1-200 | sort | uniq -c | sort -rn | head -8; } >> $LOG
done
echo "DONE $(date)" >> $LOG
