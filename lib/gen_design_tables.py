#!/usr/bin/env python3
"""Regenerate the generated tables of DESIGN.md §8 (between BEGIN/END markers) from
known_findings.json and seeded/*/meta.json."""
import glob, json, os, re
V = os.path.dirname(os.path.dirname(os.path.abspath(__file__)))
k = json.load(open(os.path.join(V, 'known_findings.json')))['findings']
def esc(s): return s.replace('|', '\\|').replace('\n', ' ')
rows = ['| id | property | status | what |', '|---|---|---|---|']
for f in sorted(k, key=lambda f: (f['property'], f['id'])):
    st = f['status'] + ((' ' + f.get('commit', '')) if f['status'] == 'fixed' else '')
    what = re.sub(r'^fixed: property=\S+ \S+ ', '', f['what'])
    rows.append('| %s | %s | %s | %s |' % (f['id'], f['property'], st, esc(what)))
nf = sum(1 for f in k if f['status'] == 'fixed'); no = sum(1 for f in k if f['status'] == 'open')
findings = '%d entries: %d fixed by `fix:` commits in /repo, %d open (recorded, excluded by construction, pinned reproduction prints KNOWN-FINDING).\n\n' % (len(k), nf, no) + '\n'.join(rows)
srows = ['| seeded change | property | what it breaks | what it needs | outcome |', '|---|---|---|---|---|']
for fn in sorted(glob.glob(os.path.join(V, 'seeded', '*', 'meta.json'))):
    m = json.load(open(fn))
    srows.append('| seeded/%s | %s | %s | %s | %s |' % (os.path.basename(os.path.dirname(fn)), m['property'], esc(m['breaks']), esc(m['needs']), esc(m['caught'])))
seeded = '\n'.join(srows)
p = os.path.join(V, 'DESIGN.md')
s = open(p).read()
for name, body in (('FINDINGS', findings), ('SEEDED', seeded)):
    b, e = '<!-- BEGIN %s -->' % name, '<!-- END %s -->' % name
    if b in s:
        s = s[:s.index(b) + len(b)] + '\n' + body + '\n' + s[s.index(e):]
open(p, 'w').write(s)
print('DESIGN.md tables regenerated: %d findings, %d seeded' % (len(k), len(srows) - 2))
