"""Driver behind /verif/bin/check and /verif/bin/setup (stdlib only).

Builds the harness test binaries *into dolt's module* (go test -c with -overlay and
-modfile, nothing is written under /repo), runs the selected TestVerif_<ID> tests from a
scratch directory, merges the evidence parts the tests wrote, and maps the outcome to the
exit-code contract (0 held / 1 VIOLATION / 2 inconclusive).
"""
import argparse, fcntl, glob, hashlib, json, os, re, resource, shutil, signal, subprocess, sys, time

VERIF = os.path.dirname(os.path.dirname(os.path.abspath(__file__)))
REPO = os.environ.get('VERIF_REPO', '/repo')
REPO_GO = os.path.join(REPO, 'go')
BUILD = os.environ.get('VERIF_BUILD') or os.path.join(VERIF, 'build')
HARNESS = os.path.join(VERIF, 'harness')
# runs against a scratch copy of the repository (mutation trials) keep their evidence and replays
# out of /verif/evidence and /verif/replays
OUT = BUILD if os.environ.get('VERIF_REPO') else VERIF
GO_CANDIDATES = [
    '/root/go/pkg/mod/golang.org/toolchain@v0.0.1-go1.26.2.linux-amd64/bin/go',
    '/usr/local/bin/go1.26.8', '/opt/veriftools/go1.26.8/bin/go',
]
EXTRA_REQUIRES = ['pgregory.net/rapid v1.3.0', 'github.com/anishathalye/porcupine v1.3.0']


def log(*a):
    print(*a, file=sys.stderr, flush=True)


def find_go():
    for g in GO_CANDIDATES:
        if os.path.isfile(g) and os.access(g, os.X_OK):
            return g
    w = shutil.which('go1.26.8') or shutil.which('go1.26')
    if w:
        return w
    return 'go'


def go_env():
    e = dict(os.environ)
    e.update(GOTOOLCHAIN='local', GOFLAGS='-mod=mod', GOPROXY='off', GOSUMDB='off', GONOSUMDB='*', GONOSUMCHECK='1',
             GOWORK='off', CGO_ENABLED=e.get('CGO_ENABLED', '1'))
    return e


def load_registry():
    """harness/registry.json plus every harness/registry.d/*.json (engines and properties are merged)."""
    with open(os.path.join(HARNESS, 'registry.json')) as f:
        reg = json.load(f)
    for fn in sorted(glob.glob(os.path.join(HARNESS, 'registry.d', '*.json'))):
        with open(fn) as f:
            part = json.load(f)
        for k in ('engines', 'properties', 'not_applicable'):
            reg.setdefault(k, {}).update(part.get(k) or {})
    return reg


class Lock:
    def __init__(self, name):
        os.makedirs(BUILD, exist_ok=True)
        self.path = os.path.join(BUILD, '.' + name + '.lock')

    def __enter__(self):
        self.f = open(self.path, 'w')
        fcntl.flock(self.f, fcntl.LOCK_EX)
        return self

    def __exit__(self, *a):
        fcntl.flock(self.f, fcntl.LOCK_UN)
        self.f.close()


def write_atomic(path, data):
    old = None
    try:
        with open(path) as f:
            old = f.read()
    except OSError:
        pass
    if old == data:
        return
    tmp = path + '.tmp.%d' % os.getpid()
    with open(tmp, 'w') as f:
        f.write(data)
    os.replace(tmp, path)


def prepare_build(reg):
    """(Re)generate build/go.mod, build/go.sum and build/overlay.json from /repo and harness/."""
    with Lock('prepare'):
        os.makedirs(os.path.join(BUILD, 'bin'), exist_ok=True)
        mod = open(os.path.join(REPO_GO, 'go.mod')).read()
        extra = [r for r in EXTRA_REQUIRES if r.split()[0] not in mod]
        if extra:
            mod += '\nrequire (\n' + ''.join('\t%s\n' % r for r in extra) + ')\n'
        write_atomic(os.path.join(BUILD, 'go.mod'), mod)
        s = open(os.path.join(REPO_GO, 'go.sum')).read()
        xs = os.path.join(HARNESS, 'extra.sum')
        if os.path.exists(xs):
            have = set(s.splitlines())
            for line in open(xs).read().splitlines():
                if line.strip() and line not in have:
                    s += line + '\n'
        # keep lines go itself added to the copy on earlier runs (they are content hashes)
        cur = os.path.join(BUILD, 'go.sum')
        if os.path.exists(cur):
            have = set(s.splitlines())
            for line in open(cur).read().splitlines():
                if line.strip() and line not in have and (line.startswith('pgregory.net/rapid ') or line.startswith('github.com/anishathalye/porcupine ')):
                    s += line + '\n'
        write_atomic(cur, s)
        libs = {n: e for n, e in reg['engines'].items() if e.get('lib')}
        for ename, e in reg['engines'].items():
            if e.get('lib'):
                continue
            repl = {}
            group = dict(libs)
            group[ename] = e
            for also in e.get('with', []):  # other engines' files compiled into the same binary
                group[also] = reg['engines'][also]
            for name, eng in group.items():
                d = os.path.join(VERIF, eng['dir'])
                if not os.path.isdir(d):
                    continue
                for fn in sorted(os.listdir(d)):
                    if not fn.endswith('.go'):
                        continue
                    if eng.get('virtual'):
                        dst = os.path.join(REPO_GO, eng['pkg'], fn)
                    else:
                        dst = os.path.join(REPO_GO, eng['pkg'], 'zz_verif_' + fn)
                    repl[dst] = os.path.join(d, fn)
            write_atomic(os.path.join(BUILD, 'overlay.%s.json' % ename), json.dumps({'Replace': repl}, indent=1, sort_keys=True))


def build_engine(reg, name, race=False, fuzz=None, quiet=False):
    """go test -c the engine's package with the overlay.  Returns (path, None) or (None, output)."""
    eng = reg['engines'][name]
    suffix = ('.race' if race else '') + (('.fuzz' if fuzz else ''))
    out = os.path.join(BUILD, 'bin', name + suffix + '.test')
    cmd = [find_go(), 'test', '-modfile=' + os.path.join(BUILD, 'go.mod'), '-overlay=' + os.path.join(BUILD, 'overlay.%s.json' % name),
           '-vet=off', '-c', '-o', out]
    if race:
        cmd.append('-race')
    if fuzz:
        cmd.append('-fuzz=' + fuzz)
    cmd.append('./' + eng['pkg'])
    with Lock('build.' + name + suffix):
        t0 = time.time()
        p = subprocess.run(cmd, cwd=REPO_GO, env=go_env(), stdout=subprocess.PIPE, stderr=subprocess.STDOUT, text=True)
        if not quiet:
            log('[build] %s%s: rc=%d %.1fs' % (name, suffix, p.returncode, time.time() - t0))
        if p.returncode != 0 or not os.path.exists(out):
            return None, p.stdout
    return out, None


def build_dolt(quiet=False):
    out = os.path.join(BUILD, 'bin', 'dolt')
    with Lock('build.dolt'):
        t0 = time.time()
        p = subprocess.run([find_go(), 'build', '-o', out, './cmd/dolt'], cwd=REPO_GO, env=go_env(),
                           stdout=subprocess.PIPE, stderr=subprocess.STDOUT, text=True)
        if not quiet:
            log('[build] dolt: rc=%d %.1fs' % (p.returncode, time.time() - t0))
        if p.returncode != 0:
            return None, p.stdout
    return out, None


def scratch_base():
    for base in ('/dev/shm', os.path.join(BUILD, 'scratch')):
        try:
            os.makedirs(base, exist_ok=True)
            d = os.path.join(base, 'verif.%d.%d' % (os.getpid(), int(time.time())))
            os.makedirs(d)
            return d
        except OSError:
            continue
    raise SystemExit(2)


def _limits(mem_gb):
    def f():
        os.setsid()
        if mem_gb:
            try:
                resource.setrlimit(resource.RLIMIT_AS, (mem_gb << 30, mem_gb << 30))
            except Exception:
                pass
    return f


class Shard:
    def __init__(self, idx, run, cwd, proc, logf):
        self.idx, self.run, self.cwd, self.proc, self.logf = idx, run, cwd, proc, logf
        self.killed = False


def start_shard(binpath, run, idx, nshards, scratch, env_extra, timeout_s, extra_args, race):
    cwd = os.path.join(scratch, 'r%s.s%d' % (run['_n'], idx))
    os.makedirs(os.path.join(cwd, 'tmp'))
    env = dict(os.environ)
    env.update(env_extra)
    env.update(VERIF_SHARD=str(idx), VERIF_NSHARDS=str(nshards), VERIF_SCRATCH=os.path.join(cwd, 'tmp'),
               TMPDIR=os.path.join(cwd, 'tmp'), VERIF_EVIDENCE_DIR=os.path.join(scratch, 'evidence'),
               VERIF_KNOWN=os.path.join(VERIF, 'known_findings.json'), VERIF_DIR=VERIF,
               VERIF_BIN_DIR=os.path.join(BUILD, 'bin'), HOME=os.path.join(cwd, 'tmp'),
               DOLT_ROOT_PATH=os.path.join(cwd, 'tmp'), NO_COLOR='1')
    args = [binpath, '-test.run', run['run'], '-test.timeout', '%ds' % timeout_s, '-test.count=1'] + extra_args
    logf = open(os.path.join(cwd, 'output.log'), 'w')
    p = subprocess.Popen(args, cwd=cwd, env=env, stdout=logf, stderr=subprocess.STDOUT,
                         preexec_fn=_limits(0 if race else int(run.get('mem_gb', 40))))
    return Shard(idx, run, cwd, p, logf)


def wait_all(shards, hard_timeout):
    deadline = time.time() + hard_timeout
    for s in shards:
        left = max(1, deadline - time.time())
        try:
            s.proc.wait(timeout=left)
        except subprocess.TimeoutExpired:
            s.killed = True
            try:
                os.killpg(s.proc.pid, signal.SIGKILL)
            except OSError:
                pass
            s.proc.wait()
        s.logf.close()
        # children the test may have left behind
        try:
            os.killpg(s.proc.pid, signal.SIGKILL)
        except OSError:
            pass


def classify(s, crash_is_violation):
    """-> (status, failures) with status in pass|violation|inconclusive."""
    out = open(os.path.join(s.cwd, 'output.log'), errors='replace').read()
    fails = []
    for fn in sorted(glob.glob(os.path.join(s.cwd, 'verif_failures', '*.json'))):
        try:
            fails.append(json.load(open(fn)))
        except Exception:
            pass
    # Go's native fuzzer saves a crasher under ./testdata/fuzz/<Target>/<hash> (cwd = scratch)
    for fn in sorted(glob.glob(os.path.join(s.cwd, 'testdata', 'fuzz', '*', '*'))):
        fails.append({'test': os.path.basename(os.path.dirname(fn)), 'failfile': fn, 'detail': '', 'fuzz': True})
    if os.path.exists(os.path.join(s.cwd, 'verif_inconclusive')):
        return 'inconclusive', [], out, 'harness reported inconclusive: ' + open(os.path.join(s.cwd, 'verif_inconclusive')).read()[:500]
    if s.killed:
        return 'inconclusive', [], out, 'wall-clock budget hit; process killed'
    rc = s.proc.returncode
    if rc == 0:
        return 'pass', [], out, ''
    if 'panic: test timed out' in out:
        return 'inconclusive', [], out, 'test timeout'
    if re.search(r'cannot allocate memory|out of memory|runtime: out of memory', out):
        return 'inconclusive', [], out, 'out of memory'
    if fails:
        return 'violation', fails, out, ''
    if rc < 0:
        return 'inconclusive', [], out, 'worker died with signal %d' % (-rc)
    if re.search(r'^\s*--- FAIL', out, re.M) and not re.search(r'^(panic:|fatal error:)', out, re.M):
        return 'violation', [{'test': 'unknown', 'failfile': '', 'detail': ''}], out, ''
    # hard crash (panic outside rapid's recover, fatal error, os.Exit)
    if crash_is_violation:
        cc = os.path.join(s.cwd, 'current_case.json')
        detail = open(cc).read() if os.path.exists(cc) else ''
        return 'violation', [{'test': 'crash', 'failfile': '', 'detail': detail}], out, ''
    return 'inconclusive', [], out, 'worker crashed (rc=%d); case kept for triage' % rc


def merge_evidence(pid, prop, tier, seed, evdir, wall, nviol, known_lines):
    parts = {}
    for fn in sorted(glob.glob(os.path.join(evdir, pid + '.*.json'))):
        try:
            d = json.load(open(fn))
        except Exception:
            continue
        p = parts.setdefault(d['part'], {'evaluations': 0, 'hashes': set(), 'classes': {}, 'samples': [], 'rule': d.get('rule', ''),
                                         'level': d.get('level'), 'assumptions': d.get('assumptions') or [], 'extra': {},
                                         'excluded_known': 0, 'exhaustive': None, 'shards': 0})
        p['evaluations'] += d.get('evaluations', 0)
        p['hashes'].update(d.get('nontrivial_hashes') or [])
        for k, v in (d.get('classes') or {}).items():
            p['classes'][k] = p['classes'].get(k, 0) + v
        if len(p['samples']) < 6:
            p['samples'].extend((d.get('samples') or [])[:max(1, 6 - len(p['samples']))])
        for k, v in (d.get('extra') or {}).items():
            if isinstance(v, (int, float)) and not isinstance(v, bool) and isinstance(p['extra'].get(k), (int, float)):
                p['extra'][k] += v
            else:
                p['extra'][k] = v
        p['excluded_known'] += d.get('excluded_known', 0)
        if d.get('exhaustive') is not None:
            p['exhaustive'] = d['exhaustive'] if p['exhaustive'] is None else (p['exhaustive'] and d['exhaustive'])
        p['shards'] += 1
    evals = sum(p['evaluations'] for p in parts.values())
    distinct = sum(len(p['hashes']) for p in parts.values())
    samples = []
    for name, p in sorted(parts.items()):
        for smp in p['samples'][:3]:
            samples.append({'part': name, 'case': smp})
    rule = ' || '.join('[%s] %s' % (n, p['rule']) for n, p in sorted(parts.items()))
    assumptions = []
    for p in parts.values():
        for a in p['assumptions']:
            if a not in assumptions:
                assumptions.append(a)
    cov = {'evaluations': evals, 'distinct_nontrivial': distinct, 'rule': rule, 'samples': samples,
           'parts': {n: {'evaluations': p['evaluations'], 'distinct_nontrivial': len(p['hashes']), 'classes': p['classes'],
                         'excluded_known': p['excluded_known'], 'shards': p['shards'], **({'exhaustive': p['exhaustive']} if p['exhaustive'] is not None else {}),
                         **({'extra': p['extra']} if p['extra'] else {})}
                     for n, p in sorted(parts.items())},
           'excluded_known': sum(p['excluded_known'] for p in parts.values()),
           'known_findings_reported': known_lines}
    exh = [p['exhaustive'] for p in parts.values() if p['exhaustive'] is not None]
    if exh and all(exh) and len(exh) == len(parts):
        cov['exhaustive'] = True
    ev = {'property_id': pid, 'tier': tier, 'seed': seed, 'level': prop.get('level', 'exploration'), 'coverage': cov,
          'assumptions': assumptions, 'wall_s': round(wall, 2), 'violations': nviol}
    return ev


def validate_evidence(ev):
    c = ev.get('coverage', {})
    errs = []
    if c.get('evaluations', 0) < 1:
        errs.append('evaluations < 1')
    if c.get('distinct_nontrivial', 0) < 2:
        errs.append('distinct_nontrivial < 2')
    if not c.get('samples'):
        errs.append('no samples')
    if not isinstance(c.get('rule'), str) or not c.get('rule'):
        errs.append('no rule')
    try:
        import jsonschema  # present in the tooling venv only
        schema = json.load(open('/root/.vp/EVIDENCE.schema.json'))
        jsonschema.validate(ev, schema)
    except ImportError:
        pass
    except Exception as e:  # validation error
        errs.append('schema: %s' % str(e)[:300])
    return errs


def save_replay(pid, fail, shard, out, run):
    d = os.path.join(OUT, 'replays', pid)
    os.makedirs(d, exist_ok=True)
    stamp = time.strftime('%Y%m%d-%H%M%S')
    test = fail.get('test', 'unknown')
    safe = re.sub(r'[^A-Za-z0-9_.-]', '_', test)
    if fail.get('fuzz') and os.path.exists(fail['failfile']):
        dst = os.path.join(d, '%s-%s-%s.fuzz' % (safe, stamp, os.path.basename(fail['failfile'])[:16]))
        shutil.copy(fail['failfile'], dst)
    elif fail.get('failfile') and os.path.exists(fail['failfile']):
        dst = os.path.join(d, '%s-%s-s%d.fail' % (safe, stamp, shard.idx))
        shutil.copy(fail['failfile'], dst)
    elif fail.get('detail'):
        dst = os.path.join(d, '%s-%s-s%d.case.json' % (safe, stamp, shard.idx))
        open(dst, 'w').write(fail['detail'])
    else:
        dst = os.path.join(d, '%s-%s-s%d.log' % (safe, stamp, shard.idx))
        open(dst, 'w').write(out[-200000:])
    meta = {'property': pid, 'test': test, 'engine': run['engine'], 'race': bool(run.get('race')), 'fuzz': run.get('fuzz'),
            'seed': os.environ.get('VERIF_SEED', '1'), 'shard': shard.idx}
    open(dst + '.meta.json', 'w').write(json.dumps(meta, indent=1))
    tail = os.path.join(d, os.path.basename(dst) + '.output.txt')
    open(tail, 'w').write(out[-100000:])
    return dst


def test_regex(name):
    return '/'.join('^%s$' % re.escape(p) for p in name.split('/'))


def do_replay(reg, pid, path):
    meta_p = path + '.meta.json'
    if not os.path.exists(meta_p):
        log('no %s next to the replay file' % meta_p)
        return 2
    meta = json.load(open(meta_p))
    prepare_build(reg)
    binpath, err = build_engine(reg, meta['engine'], race=meta.get('race', False))
    if binpath and path.endswith('.fuzz') and meta.get('fuzz'):
        return replay_fuzz(reg, pid, path, meta, binpath)
    if not binpath:
        print(err)
        log('inconclusive: harness does not build')
        return 2
    scratch = scratch_base()
    try:
        run = {'run': test_regex(meta['test']) if meta['test'] not in ('unknown', 'crash') else reg['properties'][pid]['runs'][0]['run'],
               'engine': meta['engine'], '_n': 0}
        extra = ['-test.v']
        envx = {'VERIF_TIER': 'quick', 'VERIF_SEED': str(meta.get('seed', '1')), 'VERIF_REPLAY': os.path.abspath(path)}
        if path.endswith('.fail'):
            extra.append('-rapid.failfile=' + os.path.abspath(path))
        s = start_shard(binpath, run, int(meta.get('shard', 0)), 1, scratch, envx, 1800, extra, meta.get('race', False))
        wait_all([s], 1900)
        status, fails, out, why = classify(s, reg['properties'][pid].get('crash_is_violation', False))
        sys.stdout.write(out[-20000:])
        if status == 'violation':
            print('VIOLATION property=%s replay=%s' % (pid, path))
            return 1
        if status == 'inconclusive':
            log('inconclusive: ' + why)
            return 2
        print('replay passed: property=%s replay=%s' % (pid, path))
        return 0
    finally:
        shutil.rmtree(scratch, ignore_errors=True)


def replay_fuzz(reg, pid, path, meta, binpath):
    """Re-run one saved fuzz input as a seed-corpus entry of its target (no fuzzing engine involved)."""
    scratch = scratch_base()
    try:
        target = meta['fuzz']
        cwd = os.path.join(scratch, 'replay')
        corp = os.path.join(cwd, 'testdata', 'fuzz', target)
        os.makedirs(corp)
        os.makedirs(os.path.join(cwd, 'tmp'))
        shutil.copy(path, os.path.join(corp, 'replayinput'))
        env = dict(os.environ)
        env.update(VERIF_TIER='quick', VERIF_SEED='1', VERIF_REPLAY=os.path.abspath(path), TMPDIR=os.path.join(cwd, 'tmp'),
                   VERIF_SCRATCH=os.path.join(cwd, 'tmp'), VERIF_KNOWN=os.path.join(VERIF, 'known_findings.json'))
        p = subprocess.run([binpath, '-test.run', '^%s$/^replayinput$' % re.escape(target), '-test.v', '-test.timeout', '600s'],
                           cwd=cwd, env=env, stdout=subprocess.PIPE, stderr=subprocess.STDOUT, text=True)
        sys.stdout.write(p.stdout[-20000:])
        if p.returncode != 0:
            print('VIOLATION property=%s replay=%s' % (pid, path))
            return 1
        print('replay passed: property=%s replay=%s' % (pid, path))
        return 0
    finally:
        shutil.rmtree(scratch, ignore_errors=True)


def main(argv):
    ap = argparse.ArgumentParser(prog='check')
    ap.add_argument('id')
    ap.add_argument('--tier', default=os.environ.get('VERIF_TIER') or 'quick', choices=['quick', 'thorough'])
    ap.add_argument('--replay')
    ap.add_argument('--seed', type=int)
    ap.add_argument('--keep', action='store_true', help='keep the scratch directory')
    ap.add_argument('--only', help='only runs whose regex contains this substring (development aid; evidence not written)')
    a = ap.parse_args(argv)
    reg = load_registry()
    pid = a.id
    if pid not in reg['properties']:
        log('unknown property ' + pid)
        return 2
    prop = reg['properties'][pid]
    if a.replay:
        return do_replay(reg, pid, a.replay)
    try:
        seed = a.seed if a.seed is not None else int(os.environ.get('VERIF_SEED') or 1)
    except ValueError:
        seed = 1
    tier = a.tier
    t0 = time.time()
    try:
        prepare_build(reg)
    except Exception as e:
        log('inconclusive: cannot prepare build: %r' % e)
        return 2
    runs = [dict(r) for r in prop['runs'] if tier in r.get('tiers', ['quick', 'thorough'])]
    if a.only:
        runs = [r for r in runs if a.only in r['run']]
    for i, r in enumerate(runs):
        r['_n'] = i
    bins = {}
    need_dolt = any(reg['engines'][r['engine']].get('needs_dolt_bin') for r in runs)
    if need_dolt:
        p, err = build_dolt()
        if not p:
            print(err[-5000:])
            log('inconclusive: dolt does not build from the current tree')
            return 2
    for r in runs:
        key = (r['engine'], bool(r.get('race')), r.get('fuzz'))
        if key in bins:
            continue
        p, err = build_engine(reg, r['engine'], race=bool(r.get('race')), fuzz=r.get('fuzz'))
        if not p:
            print(err[-8000:])
            log('inconclusive: harness/%s does not build against the current tree' % r['engine'])
            return 2
        bins[key] = p
    scratch = scratch_base()
    os.makedirs(os.path.join(scratch, 'evidence'))
    envx = {'VERIF_TIER': tier, 'VERIF_SEED': str(seed)}
    ncpu = os.cpu_count() or 4
    all_shards = []
    results = []
    try:
        # runs execute one after another; the shards of one run in parallel
        for r in runs:
            tcfg = r.get(tier, {})
            nsh = int(tcfg.get('shards', 1))
            nsh = max(1, min(nsh, ncpu))
            timeout_s = int(tcfg.get('timeout_s', 900 if tier == 'quick' else 2400))
            extra = []
            if r.get('fuzz'):
                extra = ['-test.fuzz', '^%s$' % r['fuzz'], '-test.fuzztime', tcfg.get('fuzztime', '60s'),
                         '-test.fuzzcachedir', os.path.join(scratch, 'fuzzcache'), '-test.parallel', str(ncpu)]
            shards = [start_shard(bins[(r['engine'], bool(r.get('race')), r.get('fuzz'))], r, i, nsh, scratch, envx, timeout_s, extra, bool(r.get('race')))
                      for i in range(nsh)]
            wait_all(shards, timeout_s + 90)
            all_shards.extend(shards)
            for s in shards:
                results.append((s, r) + classify(s, prop.get('crash_is_violation', False)))
        known = []
        viol_paths = []
        inconcl = []
        for s, r, status, fails, out, why in results:
            for line in out.splitlines():
                if line.startswith('KNOWN-FINDING:') and line not in known:
                    known.append(line)
            if status == 'violation':
                for f in fails[:3]:
                    viol_paths.append(save_replay(pid, f, s, out, r))
                log('---- failing output (run %s shard %d) ----' % (r['run'], s.idx))
                log(out[-6000:])
            elif status == 'inconclusive':
                inconcl.append('%s shard %d: %s' % (r['run'], s.idx, why))
                log('---- inconclusive output (run %s shard %d): %s ----' % (r['run'], s.idx, why))
                log(out[-3000:])
        # one KNOWN-FINDING line per listed finding (sub-checks and shards may each report the same one)
        per_id = {}
        for line in known:
            m = re.match(r'KNOWN-FINDING: property=\S+ ([^:\s]+)', line)
            per_id.setdefault(m.group(1) if m else line, []).append(line)
        for fid, lines in per_id.items():
            print(lines[0] + (' (+%d further reports of this finding)' % (len(lines) - 1) if len(lines) > 1 else ''))
        wall = time.time() - t0
        ev = merge_evidence(pid, prop, tier, seed, os.path.join(scratch, 'evidence'), wall, len(viol_paths), known)
        everrs = validate_evidence(ev)
        floor = int((prop.get('floor') or {}).get(tier, 2))
        if not a.only:
            os.makedirs(os.path.join(OUT, 'evidence'), exist_ok=True)
            if not everrs or viol_paths:
                write_atomic(os.path.join(OUT, 'evidence', pid + '.json'), json.dumps(ev, indent=1, sort_keys=True) + '\n')
        c = ev['coverage']
        log('[%s %s seed=%d] evaluations=%d distinct_nontrivial=%d (floor %d) wall=%.1fs' % (pid, tier, seed, c['evaluations'], c['distinct_nontrivial'], floor, wall))
        if viol_paths:
            for p in viol_paths:
                print('VIOLATION property=%s replay=%s' % (pid, p))
            return 1
        if inconcl:
            for w in inconcl:
                log('inconclusive: ' + w)
            return 2
        if everrs:
            log('inconclusive: evidence invalid: ' + '; '.join(everrs))
            return 2
        if c['distinct_nontrivial'] < floor and not a.only:
            log('inconclusive: only %d distinct non-trivial cases, floor is %d (generator regression?)' % (c['distinct_nontrivial'], floor))
            return 2
        print('OK property=%s tier=%s evaluations=%d distinct_nontrivial=%d' % (pid, tier, c['evaluations'], c['distinct_nontrivial']))
        return 0
    finally:
        if a.keep:
            log('scratch kept: ' + scratch)
        else:
            shutil.rmtree(scratch, ignore_errors=True)


def setup_main(argv):
    reg = load_registry()
    prepare_build(reg)
    rc = 0
    engines = sorted(reg['engines'])
    if argv:
        engines = [e for e in engines if e in argv]
    for name in engines:
        if reg['engines'][name].get('lib'):
            continue
        p, err = build_engine(reg, name)
        if not p:
            print(err[-4000:])
            rc = 1
    if any(e.get('needs_dolt_bin') for e in reg['engines'].values()):
        p, err = build_dolt()
        if not p:
            print(err[-4000:])
            rc = 1
    return rc
