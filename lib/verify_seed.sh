#!/bin/bash
# verify_seed.sh <ID> <worktree> <demo-dest-dir-relative-to-worktree> <demo-run-regex> <pkg-tests...>
# Confirms a seeded change: demo fails with it and passes without it, the touched packages' tests
# pass with it, then runs /verif's check against the changed tree. Writes /verif/seeded/<ID>/.
set -u
ID=$1; WT=$2; DEST=$3; RUN=$4; shift 4; PKGS="$@"
GO=/root/go/pkg/mod/golang.org/toolchain@v0.0.1-go1.26.2.linux-amd64/bin/go
export GOTOOLCHAIN=local GOFLAGS=-mod=mod GOPROXY=off
NAME=${SEED_NAME:-$ID}   # SEED_NAME=C09b keeps a second seed of one property apart
OUT=/verif/seeded/$NAME; mkdir -p $OUT/demo
cp $WT/SEED_OUT/patch.diff $OUT/patch.diff; cp -r $WT/SEED_OUT/demo/. $OUT/demo/; cp $WT/SEED_OUT/notes.md $OUT/notes.md 2>/dev/null
cd $WT && git checkout -q -- . && git clean -fdq -e SEED_OUT go/ 2>/dev/null
cp $OUT/demo/*_test.go $WT/$DEST/ 2>/dev/null
PKG=./${DEST#go/}
echo "== demo WITHOUT change"; (cd $WT/go && $GO test -vet=off -count=1 -run "$RUN" $PKG 2>&1 | tail -3) | tee $OUT/demo_without.txt
git -C $WT apply $OUT/patch.diff || { echo "patch does not apply"; exit 3; }
echo "== demo WITH change"; (cd $WT/go && $GO test -vet=off -count=1 -run "$RUN" $PKG 2>&1 | tail -8) | tee $OUT/demo_with.txt
rm -f $WT/$DEST/zz_seed_demo*_test.go
echo "== existing tests WITH change: $PKGS"; (cd $WT/go && $GO test -vet=off -count=1 $PKGS 2>&1 | tail -12) | tee $OUT/existing_tests_with.txt
echo "== /verif check WITH change"
cd /verif && VERIF_REPO=$WT VERIF_BUILD=/dev/shm/seedb-$NAME bin/check $ID > $OUT/check_with.txt 2>&1; RC=$?
grep -E "^VIOLATION|^OK|KNOWN-FINDING|inconclusive" $OUT/check_with.txt | head -5; echo "check exit=$RC" | tee -a $OUT/check_with.txt
rm -rf /dev/shm/seedb-$NAME
