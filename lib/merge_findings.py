#!/usr/bin/env python3
"""Merge builders' proposed entries (/verif/build/findings/*.json, each a JSON list of finding
objects) into /verif/known_findings.json. Existing (property,id) pairs are kept as they are
unless --update is given. Run by the coordinator only (the checks never write this file)."""
import glob, json, os, sys
V = os.path.dirname(os.path.dirname(os.path.abspath(__file__)))
p = os.path.join(V, 'known_findings.json')
k = json.load(open(p))
have = {(f['property'], f['id']): f for f in k['findings']}
added = 0
for fn in sorted(glob.glob(os.path.join(V, 'build', 'findings', '*.json'))):
    try:
        items = json.load(open(fn))
    except Exception as e:
        print('skip %s: %s' % (fn, e)); continue
    for f in items:
        if not all(x in f for x in ('property', 'id', 'what')):
            print('skip malformed entry in %s: %r' % (fn, f)); continue
        f.setdefault('status', 'open')
        key = (f['property'], f['id'])
        if key in have:
            if '--update' in sys.argv and have[key].get('status') != 'fixed':
                have[key].update(f)
            continue
        k['findings'].append(f); have[key] = f; added += 1
        print('added %s %s [%s]' % (f['property'], f['id'], f['status']))
json.dump(k, open(p, 'w'), indent=1)
print('%d added, %d total' % (added, len(k['findings'])))
