#!/bin/bash
# Run dolt's own test suite (the BASELINE command, guard off = no harness involved) on /repo's
# current tree and report every test of BASELINE.stable_pass that did not pass.
GO=/root/go/pkg/mod/golang.org/toolchain@v0.0.1-go1.26.2.linux-amd64/bin/go
export GOTOOLCHAIN=local GOFLAGS=-mod=mod GOPROXY=off
OUT=${1:-/verif/build/baseline.gotest.json}
cd /repo/go && $GO test -json -vet=off -count=1 -timeout 60m ./... > $OUT 2> ${OUT%.json}.stderr
python3 - $OUT <<'PY'
import json,sys
res={}
for l in open(sys.argv[1],errors='replace'):
    try: e=json.loads(l)
    except Exception: continue
    if e.get('Action') in ('pass','fail','skip') and e.get('Test'):
        res[e['Package']+'::'+e['Test']]=e['Action']
b=json.load(open('/root/.vp/BASELINE.json'))
bad=[t for t in b['stable_pass'] if res.get(t)!='pass']
print('stable_pass tests: %d; passing now: %d; not passing: %d' % (len(b['stable_pass']), len(b['stable_pass'])-len(bad), len(bad)))
from collections import Counter
c=Counter((t.split('::')[0], res.get(t,'missing')) for t in bad)
for (p,st),n in sorted(c.items()): print('  %-8s %5d  %s'%(st,n,p))
for t in bad[:40]: print('   ',res.get(t,'missing'),t)
PY
