#!/bin/bash
# run_thorough.sh <logfile> <ID>... : run thorough checks one after another
LOG=$1; shift
for id in "$@"; do
  s=$(date +%s)
  out=$(cd /verif && bin/check $id --tier thorough 2>&1); rc=$?
  e=$(date +%s)
  { echo "=== $id rc=$rc wall=$((e-s))s"; echo "$out" | grep -E "^OK|^VIOLATION|inconclusive" | cut -c1-220 | sort | uniq -c | sort -rn | head -6; } >> $LOG
done
echo "DONE $(date)" >> $LOG
